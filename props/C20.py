"""C20 - comments reach docstrings intact; whitespace clean-up never changes code meaning (partial).

Proved:  * for each re.sub of fix_whitespace (regex and replacement read from the real source on every run) ground regex lemmas in z3:
           what a match contains outside its re-emitted groups is whitespace that ends in a newline, i.e. only trailing blanks and
           whole blank lines are deleted, the replacement is a run of newlines not longer than the newlines matched, and the
           re-emitted indentation group is the complete leading whitespace of the following line;
         * the result ends in exactly one newline (pyvc on the real return statement);
         * rst(): the result never ends in a double quote (pyvc on the real function); Metadata.doc prefers leading, then trailing, then
           the detached comments joined (pyvc).
Bounded: wrap() word preservation / width, fix_whitespace idempotence and AST preservation by exhaustive small-grammar enumeration.
Not decided: the pandoc path (no pandoc here); Python's lexical facts are assumed.
"""
import ast, itertools, re
import z3
from vf.core import Run, Result, find_def, read_source
from vf.pyvc import Contract
from vf.schema import SchemaModel
from vf.smt import Ref, fn
from vf.types import *         # noqa
from vf import regex2z3 as R

FMT = "gapic/generator/formatter.py"


# ------------------------------------------------------------------------------------------------ fix_whitespace lemmas
def sub_calls():
    fdef, h = find_def(FMT, "fix_whitespace")
    out = []
    for n in ast.walk(fdef):
        if isinstance(n, ast.Call) and ast.unparse(n.func) == "re.sub" and len(n.args) == 3 \
                and all(isinstance(a, ast.Constant) and isinstance(a.value, str) for a in n.args[:2]):
            out.append((n.args[0].value, n.args[1].value, n.lineno))
    return out, h, fdef


def split_groups(pattern):
    """The part of the pattern before its first capturing group (the text that is *not* re-emitted), and the groups part."""
    depth = 0
    for i, ch in enumerate(pattern):
        if ch == "(" and pattern[i:i + 3] != "(?:" and (i == 0 or pattern[i - 1] != "\\"):
            return pattern[:i], pattern[i:]
    return pattern, ""


def whitespace_lemmas(run: Run):
    calls, h, fdef = sub_calls()
    run.functions.append({"qualname": "fix_whitespace", "source": FMT + ":fix_whitespace", "sha256_16": h, "lines": [fdef.lineno, fdef.end_lineno],
                          "obligations": "ground regex lemmas per re.sub"})
    run.table("whitespace.subs:three-substitutions-found", len(calls) == 3, detail=str(calls), group="whitespace.subs:found")
    WS = R.CATEGORY["CATEGORY_SPACE"]
    BLANKS_NL = z3.Concat(z3.Star(WS), z3.Re("\n"))                     # whitespace only, ending in a newline
    for pat, repl, line in calls:
        tag = f"whitespace.sub@{pat[:14]!r}"
        head, tail = split_groups(pat)
        # replacement: newlines followed by back-references only
        m = re.fullmatch(r"((?:\\n|\n)*)((?:\\\d)*)", repl)
        run.table(f"{tag}:replacement-is-newlines-then-the-captured-groups", m is not None, detail=repr(repl), group="whitespace.subs:replacement-shape")
        if m is None:
            continue
        n_nl = len(re.findall(r"\\n|\n", m.group(1)))
        backrefs = [int(x) for x in re.findall(r"\\(\d)", m.group(2))]
        # (1) the deleted part is whitespace that ends in a newline (so: trailing blanks and blank lines only)
        try:
            res, w = R.included(R.language(head), BLANKS_NL, run.timeout_ms)
        except NotImplementedError as e:
            run.unsupported.append(f"{tag}: regex construct {e}")
            continue
        run.results.append(Result(f"{tag}:deleted-text-is-blanks-before-a-newline-or-blank-lines", "discharged" if res == "unsat" else ("open" if res == "sat" else "unknown"),
                                  "z3", 0, "ground-regex", detail=f"witness {w!r}", group="whitespace.subs:deleted-text-is-whitespace-ending-in-newline"))
        # (2) at least as many newlines are matched as the replacement emits
        at_least = z3.Concat(*([z3.Star(z3.AllChar(R.RS))] + [z3.Re("\n"), z3.Star(z3.AllChar(R.RS))] * n_nl)) if n_nl else z3.Star(z3.AllChar(R.RS))
        res, w = R.included(R.language(head), at_least, run.timeout_ms)
        run.results.append(Result(f"{tag}:replacement-emits-no-more-newlines-than-matched", "discharged" if res == "unsat" else ("open" if res == "sat" else "unknown"),
                                  "z3", 0, "ground-regex", detail=f"witness {w!r}", group="whitespace.subs:newline-count"))
        # (3) every capturing group is re-emitted, in order, exactly once (nothing but the head is deleted)
        ngroups = re.compile(pat).groups
        top_groups = [g for g in range(1, ngroups + 1)]
        # nested groups: only the outermost ones partition the tail; find them with the sre parser
        import re._parser as sp
        parsed = sp.parse(tail) if tail else []
        outer = [av[0] for op, av in parsed if str(op) == "SUBPATTERN"]
        lit_between = [1 for op, av in parsed if str(op) != "SUBPATTERN"]
        run.table(f"{tag}:everything-after-the-deleted-text-is-re-emitted", not lit_between and backrefs == outer, detail=f"groups {outer} backrefs {backrefs}",
                  group="whitespace.subs:groups-re-emitted")
        # (4) an indentation group directly follows the final newline of the head and is followed by a non-blank character,
        #     hence it is the complete leading whitespace of that line
        if len(outer) == 2:
            g_indent, g_first = [av[3] for op, av in parsed if str(op) == "SUBPATTERN"]
            res1, w1 = R.included(R.tr(g_indent), z3.Star(z3.Re(" ")), run.timeout_ms)
            res2, w2 = R.included(R.tr(g_first), z3.Intersect(R.ANYCHAR, z3.Complement(WS)), run.timeout_ms)
            ends_nl = head.endswith("\\n")
            ok = res1 == "unsat" and res2 == "unsat" and ends_nl
            run.results.append(Result(f"{tag}:indent-group-is-the-complete-leading-whitespace", "discharged" if ok else "open", "z3", 0, "ground-regex",
                                      detail=f"{w1!r} {w2!r} head ends with newline: {ends_nl}", group="whitespace.subs:indentation-preserved"))
        elif len(outer) == 1:
            (g_first,) = [av[3] for op, av in parsed if str(op) == "SUBPATTERN"]
            res2, w2 = R.included(R.tr(g_first), z3.Plus(z3.Intersect(R.ANYCHAR, z3.Complement(WS))), run.timeout_ms)
            ok = res2 == "unsat" and head.endswith("\\n")
            run.results.append(Result(f"{tag}:following-token-starts-at-column-0", "discharged" if ok else "open", "z3", 0, "ground-regex",
                                      detail=f"{w2!r}", group="whitespace.subs:indentation-preserved"))
        run.samples.append({"regex": pat, "replacement": repl, "deleted_part": head, "line": line})


# ------------------------------------------------------------------------------------------------ pyvc parts
def pyvc_parts(run: Run):
    m = SchemaModel()
    from vf.model import Native
    m.globals["re"] = pyv(Native(re))
    S = z3.StringSort()
    rs0 = fn("str.rstrip0", S, S)
    # assumed contract of str.rstrip(): the result has no trailing whitespace (in particular it does not end in a newline)
    s = z3.Const("rs", S)
    m.add_axiom(z3.ForAll([s], z3.And(z3.Not(z3.SuffixOf(z3.StringVal("\n"), rs0(s))), z3.Not(z3.SuffixOf(z3.StringVal(" "), rs0(s))),
                                      z3.Not(z3.SuffixOf(z3.StringVal("\t"), rs0(s)))), patterns=[rs0(s)]))
    m.opaque_natives["re.sub"] = "Str"
    c = Contract("fix_whitespace", source=(FMT, "fix_whitespace"), params={"code": "Str"}, result="Str",
                 ensures=["result.endswith('\\n')", "not result.endswith('\\n\\n')", "not result.endswith(' \\n') and not result.endswith('\\t\\n')"])
    m.add_contract(c)
    run.verify(m, c)
    # rst(): never ends in a double quote
    m2 = SchemaModel()
    m2.globals["re"] = pyv(Native(re))
    import pypandoc
    m2.globals["pypandoc"] = pyv(Native(pypandoc))
    m2.opaque_natives["re.search"] = "Opt[Opaque]"
    m2.opaque_natives["pypandoc.convert_text"] = "Str"
    m2.opaque_natives["pypandoc.__init__.convert_text"] = "Str"
    m2.add_contract(Contract("wrap", params={"text": "Str", "indent": "Int", "offset": "Int", "width": "Int"}, result="Str", kind="assumed",
                             note="lines.wrap: under the bounded stand-in below"))
    from vf.model import FuncV
    m2.globals["wrap"] = pyv(FuncV("contract", "wrap"))
    rep = fn("str.repeat", z3.StringSort(), z3.IntSort(), z3.StringSort())
    orig = m2.binop

    def binop(ex, op, a, b, st):
        if isinstance(op, ast.Mult) and a.ty is STR and b.ty is INT:
            return V(rep(a.term, b.term), STR)
        if isinstance(op, ast.Mod) and a.ty is STR:
            return V(fn("str.percent", z3.StringSort(), Ref, z3.StringSort())(a.term, z3.Const("fmtargs", Ref)), STR)
        return orig(ex, op, a, b, st)
    m2.binop = binop
    c2 = Contract("rst", source=("gapic/utils/rst.py", "rst"),
                  params={"text": "Str", "width": "Int", "indent": "Int", "nl": "Opt[Bool]", "source_format": "Str"}, result="Str",
                  # the three ways text can close or corrupt the r\"\"\"...\"\"\" literal it is placed in (from the statement: "can never terminate
                  # the string literal early"); only the first is guarded by the code
                  ensures=["not result.endswith('\"')", "'\"\"\"' not in result", "not result.endswith('\\\\')"])
    m2.add_contract(c2)
    run.verify(m2, c2)
    # Metadata.doc
    m3 = SchemaModel()
    m3.classes["Metadata"]["documentation"] = "Location"
    m3.add_class("Location", {"leading_comments": "Str", "trailing_comments": "Str", "leading_detached_comments": "Seq[Str]"})
    c3 = Contract("Metadata.doc", source=("gapic/schema/metadata.py", "Metadata.doc"), params={"self": "Metadata"}, result="Str",
                  ensures=["implies(self.documentation.leading_comments != '', result == self.documentation.leading_comments.strip())",
                           "implies(self.documentation.leading_comments == '' and self.documentation.trailing_comments != '', "
                           "result == self.documentation.trailing_comments.strip())",
                           "implies(self.documentation.leading_comments == '' and self.documentation.trailing_comments == '' and "
                           "len(self.documentation.leading_detached_comments) > 0, result == '\\n\\n'.join(self.documentation.leading_detached_comments))",
                           "implies(self.documentation.leading_comments == '' and self.documentation.trailing_comments == '' and "
                           "len(self.documentation.leading_detached_comments) == 0, result == '')"])
    m3.add_contract(c3)
    run.verify(m3, c3)
    run.assume("str.rstrip() leaves no trailing whitespace; re.sub/re.search, pypandoc.convert_text and lines.wrap are uninterpreted in the rst() proof")


# ------------------------------------------------------------------------------------------------ bounded stand-ins
def bounded_wrap(run: Run):
    from gapic.utils.lines import wrap
    from vf.core import load_known_findings
    toks = ["a", "bb:", "ccc", " ", "\n", "- ", "1. ", "dddddd", "e-f"]
    L = 5 if run.tier == "quick" else 7
    n = 0
    bad = []
    for k in range(1, L + 1):
        for combo in itertools.product(toks, repeat=k):
            text = "".join(combo)
            if text != text.lstrip() or "\t" in text:        # known-finding classes (see known_findings.json): leading whitespace, tabs
                continue
            for width in (6, 10, 16):
                for offset in (None, 0, 3):
                    n += 1
                    try:
                        out = wrap(text, width, offset=offset)
                    except Exception as e:       # noqa
                        bad.append({"text": text, "width": width, "offset": offset, "error": repr(e)})
                        continue
                    if out.split() != text.split():
                        bad.append({"text": text, "width": width, "offset": offset, "out": out, "what": "words changed"})
                        continue
                    for i, line in enumerate(out.split("\n")):
                        lim = width - (offset or 0) if i == 0 else width
                        if len(line) > lim and len(line.split()) > 1:
                            bad.append({"text": text, "width": width, "offset": offset, "out": out, "what": "line too long"})
                            break
    run.bounded.append({"what": "lines.wrap: words preserved in order, lines within width unless a single word (exhaustive over a token grammar)",
                        "bound": f"texts of <= {L} tokens over {toks} without leading whitespace / tabs, widths 6/10/16, offsets none/0/3", "cases": n,
                        "failures": bad[:5], "n_failures": len(bad)})
    if bad:
        run.results.append(Result("wrap.bounded:words-and-width", "open", "enumeration", 0, "bounded", detail=str(bad[:2]), group="wrap.bounded:words-and-width"))
        run._bounded_fail = bad[0]
    # the known classes still fail (witnesses)
    return bad


def bounded_whitespace(run: Run):
    from gapic.generator.formatter import fix_whitespace as f
    alpha = ["x", " ", "\n", "#", "@", "    ", "def", "'''", "\\"]
    L = 6 if run.tier == "quick" else 7
    n = 0
    bad = []
    for k in range(0, L + 1):
        for combo in itertools.product(alpha, repeat=k):
            s = "".join(combo)
            n += 1
            o = f(s)
            why = None
            if f(o) != o:
                why = "not idempotent"
            elif not o.endswith("\n") or o.endswith("\n\n"):
                why = "does not end in exactly one newline"
            elif any(l != l.rstrip(" ") for l in o.split("\n")) and "'''" not in s:
                why = "trailing blanks left"
            elif "".join(o.split()) != "".join(s.split()):
                why = "non-whitespace characters changed"
            else:
                li = [l[:len(l) - len(l.lstrip())] + "|" + l.strip() for l in s.split("\n") if l.strip()]
                lo = [l[:len(l) - len(l.lstrip())] + "|" + l.strip() for l in o.split("\n") if l.strip()]
                if li != lo:
                    why = "indentation of a non-blank line changed"
            if why:
                bad.append({"source": s, "output": o, "what": why})
    run.bounded.append({"what": "fix_whitespace: idempotent, one final newline, no trailing blanks, non-blank lines and their indentation unchanged",
                        "bound": f"strings of <= {L} tokens over {alpha}", "cases": n, "failures": bad[:5], "n_failures": len(bad)})
    if bad:
        run.results.append(Result("whitespace.bounded:idempotent-and-shape", "open", "enumeration", 0, "bounded", detail=str(bad[:2]),
                                  group="whitespace.bounded:idempotent-and-shape"))
        run._bounded_fail = bad[0]


def docstring_sites(run: Run):
    """Every template hole that is rendered through rst() directly after an opening triple quote must sit in a *raw* literal
    (otherwise backslashes in a comment are escape sequences)."""
    import os
    from vf.core import REPO
    bad, n = [], 0
    for root, _, files in os.walk(os.path.join(REPO, "gapic", "templates")):
        for f in files:
            if not f.endswith(".j2"):
                continue
            src = open(os.path.join(root, f)).read()
            for mt in re.finditer(r'([rR]?)"""\s*\{\{[^}]*\|\s*rst', src):
                n += 1
                if not mt.group(1):
                    bad.append(os.path.relpath(os.path.join(root, f), REPO) + ":" + str(src.count("\n", 0, mt.start()) + 1))
    run.results.append(Result("docstring.sites:comment-holes-sit-in-raw-literals", "discharged" if not bad and n else "open", "eval", 0, "table",
                              detail=f"{n} sites; non-raw: {bad}", group="docstring.sites:raw-literal"))


def wrap_known_classes(run: Run):
    """The two input classes excluded from the main enumeration (recorded findings): tabs, leading whitespace."""
    from gapic.utils.lines import wrap
    for label, texts in (("tabs", ["a\tbb cc dd ee ff gg hh ii jj kk ll mm nn oo pp qq", "x\ty z"]), ("leading-whitespace", ["  a", " a b", "  "])):
        bad = []
        for t in texts:
            for width, offset in ((20, None), (4, 3)):
                try:
                    o = wrap(t, width, offset=offset)
                    if o.split() != t.split():
                        bad.append((t, width, offset, o))
                except Exception as e:      # noqa
                    bad.append((t, width, offset, repr(e)))
        run.results.append(Result(f"wrap.classes:{label}", "open" if bad else "discharged", "enumeration", 0, "bounded", detail=str(bad[:2]),
                                  group=f"wrap.classes:{label}"))


def witness_still_fails(k):
    from vf.genlab import run_isolated
    return any(x.get("known") == k["witness"] for x in run_isolated("props.C20_native", "witnesses"))


def run(run: Run):
    run.witness_check = witness_still_fails
    whitespace_lemmas(run)
    pyvc_parts(run)
    docstring_sites(run)
    bounded_wrap(run)
    wrap_known_classes(run)
    bounded_whitespace(run)
    run.native_standin("props.C20_native", "scenarios",
                       "BOUNDED: comments in every placement (leading / trailing / detached only) on service, method, message, field, enum, enum value - one- and multi-line, "
                       "ending in a double quote - through the real generator: all words reach the element's docstring in order and every emitted module compiles")
    run.assume("Python lexical facts: outside string literals trailing blanks and the number of blank lines are not tokens; INDENT/DEDENT depend only on the leading whitespace of non-blank lines",
               "textwrap keeps word order")
    run.not_decided += ["the pandoc path of rst() (external program, absent here)",
                        "that docstring text cannot close its literal early other than by a trailing double quote (a triple quote or a backslash in a comment; see DESIGN.md section 7-F12)",
                        "wrap() on texts with tabs or leading whitespace (DESIGN.md section 7-F13)"]


def falsify(run, group, info):
    b = getattr(run, "_bounded_fail", None)
    if b is not None:
        return {"kind": "bounded", "failure": b}, True
    from vf.genlab import run_isolated
    f = run_isolated("props.C20_native", "scenarios")
    fails = [x for x in f["failures"] if not x.get("known")]
    return ({"kind": "comments", "failures": fails[:6]}, True) if fails else (None, False)


def replay(path):
    import json
    doc = json.load(open(path))
    if (doc.get("replay") or {}).get("kind") in ("comments", "native"):
        from vf.genlab import run_isolated
        r = run_isolated("props.C20_native", "scenarios")
        fails = [x for x in r["failures"] if not x.get("known")]
        print("comment scenarios ->", json.dumps(fails[:4])[:1500] if fails else f"conform ({r['cases']} checks)")
        return 1 if fails else 0
    f = (doc.get("replay") or {}).get("failure")
    if not f:
        print("no concrete input in the replay file; verifier output:", json.dumps(doc.get("open"))[:1200])
        return 1
    if "text" in f:
        from gapic.utils.lines import wrap
        out = wrap(f["text"], f["width"], offset=f["offset"])
        ok = out.split() == f["text"].split()
        print("wrap(%r, %r, offset=%r) -> %r : %s" % (f["text"], f["width"], f["offset"], out, "conforms" if ok else "FAILS"))
        return 0 if ok else 1
    from gapic.generator.formatter import fix_whitespace as fw
    o = fw(f["source"])
    ok = fw(o) == o and o.endswith("\n") and not o.endswith("\n\n")
    print("fix_whitespace(%r) -> %r : %s" % (f["source"], o, "conforms" if ok else "FAILS"))
    return 0 if ok else 1
