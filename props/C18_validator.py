"""C18 part C: generation-time validation of method settings (stage 1, pyvc on the real api.py functions)."""
from vf.core import Run
from vf.pyvc import Contract
from vf.schema import SchemaModel

A = "gapic/schema/api.py"


def schema_model():
    m = SchemaModel()
    # ---- from the property statement: "generation fails unless the method exists, is unary and the field is a top-level,
    # non-required string annotated with format UUID4, and duplicate selectors are rejected"
    m.add_spec("bad_field", ["msg", "n"],
               "n not in msg.fields or msg.fields[n].type != str or msg.fields[n].required or not msg.fields[n].uuid4")
    m.add_spec("bad_fields", ["api", "s"],
               "api.all_methods.get(s.selector).client_streaming or api.all_methods.get(s.selector).server_streaming or "
               "exists(lambda n: bad_field(api.messages[api.all_methods.get(s.selector).input_type.lstrip('.')], n), s.auto_populated_fields)")
    m.add_spec("bad_setting", ["api", "L", "i"],
               "exists(lambda j: L[j].selector == L[i].selector, 0, i) or api.all_methods.get(L[i].selector) is None or "
               "(len(L[i].auto_populated_fields) > 0 and bad_fields(api, L[i]))")
    m.add_spec("some_bad", ["api", "L", "n"], "exists(lambda i: bad_setting(api, L, i), 0, n)")
    # well-formedness of the schema (what API.build guarantees): every method's input type is a registered message
    m.add_spec("wf_api", ["api"], "forall(lambda mm: mm.input_type.lstrip('.') in api.messages, api.all_methods.values())")
    # API is a frozen dataclass; all_methods / messages are pure (cached) functions of its fields: two views over the same protos with the
    # same sub-package restriction expose the same methods and messages
    import z3
    from vf.smt import Ref, fn
    from vf.types import seq_len
    m.classes["API"].update({"all_protos": "Opaque", "naming": "Naming", "subpackage_view": "Seq[Str]",
                             "_fields": ["naming", "all_protos", "service_yaml_config", "subpackage_view"]})
    a = z3.Const("api_a", Ref)
    protos, view = fn("API.all_protos", Ref, Ref), fn("API.subpackage_view", Ref, Ref)
    for attr in ("all_methods", "messages"):
        acc = fn("API." + attr, Ref, Ref)
        m.add_axiom(z3.ForAll([a], acc(a) == fn("derived.API." + attr, Ref, Ref, Ref)(protos(a), view(a)), patterns=[acc(a)]))
        # ... and every unrestricted view (empty subpackage_view, whichever tuple object holds it) exposes the same
        m.add_axiom(z3.ForAll([a], z3.Implies(seq_len(view(a)) == 0, acc(a) == fn("derived0.API." + attr, Ref, Ref)(protos(a))), patterns=[acc(a)]))
    m.assumptions.append("API.all_methods and API.messages are functions of (all_protos, subpackage_view) alone (pure cached properties of a frozen dataclass)")
    return m


def contracts(m):
    return [
        Contract("API.enforce_valid_method_settings", source=(A, "API.enforce_valid_method_settings"),
                 params={"self": "API", "service_method_settings": "Seq[MethodSettings]"}, result=None,
                 requires=["wf_api(self)"],
                 raises={"MethodSettingsError": "some_bad(self, service_method_settings, len(service_method_settings))"},
                 locals={"all_errors": "Map[Str,Opaque]", "selectors_seen": "Set[Str]", "selector_errors": "Seq[Str]"},
                 invariants={
                     "for#1": ["forall(lambda s: (s in selectors_seen) == exists(lambda j: service_method_settings[j].selector == s, 0, _k), str)",
                               "(len(all_errors) > 0) == some_bad(self, service_method_settings, _k)"],
                     "for#2": ["(len(selector_errors) > 0) == exists(lambda j: bad_field(top_level_request_message, method_settings.auto_populated_fields[j]), 0, _k)"],
                 }),
        # `whole` (ghost): the view of the same API that is not restricted to a sub-package - selectors and request types are judged against it,
        # whichever (sub-package) view the templates happen to read the settings through
        Contract("API.all_method_settings", source=(A, "API.all_method_settings"),
                 params={"self": "API"}, ghost={"whole": "API"}, result="Opaque",
                 requires=["whole.all_protos is self.all_protos", "whole.subpackage_view is ()", "wf_api(whole)"],
                 raises={"MethodSettingsError": "some_bad(whole, self.service_yaml_config.publishing.method_settings, "
                                                "len(self.service_yaml_config.publishing.method_settings))"}),
    ]


def run(run: Run):
    m = schema_model()
    cs = contracts(m)
    for c in cs:
        m.add_contract(c)
    for c in cs:
        run.verify(m, c)
    run.assume("PrimitiveType.build(t) returns a PrimitiveType with python_type t (assumed contract of a 2-line repo classmethod)",
               "yaml.dump is pure (result unconstrained)")


def falsify(run, group, info):
    from props import C18_native as N
    if group.startswith("uuid4.populate") or group == "*":
        from vf.genlab import run_isolated
        f = run_isolated("props.C18_native", "population_scenarios")
        run.bounded.append({"what": "falsifier: generated library driven over a loopback channel (unset/empty/set x plain/optional field x message/dict)", "cases": 12})
        if f:
            return {"kind": "population", "failures": f[:5]}, True
    if group.startswith("API.") or group == "*":
        from vf.genlab import run_isolated
        f = run_isolated("props.C18_native", "validator_scenarios")
        run.bounded.append({"what": "falsifier: method-settings corpus through the real generation path", "cases": len(N.settings_corpus())})
        if f:
            return {"kind": "validator", "failures": f[:5]}, True
    return None, False


def replay(path):
    import json
    from props import C18_native as N
    doc = json.load(open(path))
    kind = (doc.get("replay") or {}).get("kind")
    if kind is None:
        print("no concrete input in replay file (no-failing-input-found); verifier output:", json.dumps(doc.get("open"))[:1500])
        return 1
    from vf.genlab import run_isolated
    f = run_isolated("props.C18_native", "population_scenarios" if kind == "population" else "validator_scenarios")
    print("replayed", kind, "->", "FAILS " + json.dumps(f[:3]) if f else "conforms")
    return 1 if f else 0
