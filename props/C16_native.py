"""C16 replay: selective generation on a concrete type graph through the real API.build; closure / minimality / exact method set
/ dependencies untouched / internal mode.  Bounded; never counted as proof."""
import itertools


def files():
    from vf import genlab as G
    T = G.T
    k = G.new_file("acme/lab/v1/kinds.proto", "acme.lab.v1")
    e = k.enum_type.add(name="Kind"); e.value.add(name="KIND_UNSPECIFIED", number=0); e.value.add(name="BIG", number=1)
    e2 = k.enum_type.add(name="OtherKind"); e2.value.add(name="OTHER_KIND_UNSPECIFIED", number=0)
    rs = G.new_file("acme/lab/v1/resources.proto", "acme.lab.v1")            # (kinds.proto stays an enum-only file)
    fd = G.new_file("acme/lab/v1/lab.proto", "acme.lab.v1", deps=G.STD_DEPS + ["acme/lab/v1/kinds.proto", "acme/lab/v1/resources.proto"])
    for n in ("Color", "Unused"):
        en = fd.enum_type.add(name=n); en.value.add(name=n.upper() + "_UNSPECIFIED", number=0)
    M = ".acme.lab.v1."
    a = G.add_message(fd, "A", [G.F("b", 1, T.TYPE_MESSAGE, type_name=M + "B"), G.F("c", 2, T.TYPE_ENUM, type_name=M + "Color"),
                                G.F("inner", 3, T.TYPE_MESSAGE, type_name=M + "A.Inner"), G.F("kind", 4, T.TYPE_ENUM, type_name=M + "Kind")])
    inner = G.add_message(a, "Inner", [G.F("x", 1, T.TYPE_STRING), G.F("ie", 2, T.TYPE_ENUM, type_name=M + "A.Inner.IE")])
    ie = inner.enum_type.add(name="IE"); ie.value.add(name="IE_UNSPECIFIED", number=0)
    G.add_message(a, "NotReferenced", [G.F("z", 1, T.TYPE_STRING)])
    # types reachable only as the VALUE of a map field (through the synthetic entry message): a message and an enum
    for ename, fnum, vt, vtn in (("AttrsEntry", 5, T.TYPE_MESSAGE, M + "MapOnly"), ("GradesEntry", 6, T.TYPE_ENUM, M + "MapOnlyKind")):
        ent = a.nested_type.add(name=ename)
        ent.field.append(G.F("key", 1, T.TYPE_STRING))
        ent.field.append(G.F("value", 2, vt, type_name=vtn))
        ent.options.map_entry = True
        a.field.append(G.F(ename[:-5].lower(), fnum, T.TYPE_MESSAGE, label=G.REPEATED, type_name=M + "A." + ename))
    G.add_message(fd, "MapOnly", [G.F("deep", 1, T.TYPE_MESSAGE, type_name=M + "MapOnlyDeep")])
    G.add_message(fd, "MapOnlyDeep", [])
    mk = fd.enum_type.add(name="MapOnlyKind"); mk.value.add(name="MAP_ONLY_KIND_UNSPECIFIED", number=0)
    G.add_message(fd, "B", [G.F("cs", 1, T.TYPE_MESSAGE, label=G.REPEATED, type_name=M + "C"), G.F("res", 2, T.TYPE_STRING, resource_ref="lab.example.com/Res")])
    G.add_message(fd, "C", [G.F("a", 1, T.TYPE_MESSAGE, type_name=M + "A")])
    # the resource a kept request refers to lives in the *other* file of the package and is reachable only through that reference
    G.add_message(rs, "Res", [G.F("name", 1, T.TYPE_STRING), G.F("d", 2, T.TYPE_MESSAGE, type_name=M + "D")], resource=("lab.example.com/Res", "things/{thing}"))
    G.add_message(rs, "D", [])
    # ... and the same resource type is declared once more as a file-level definition of the LATER file (which refers to it without importing the
    # message's file for that): the message declaration, found first, is the resource
    from google.api import resource_pb2
    rdef = fd.options.Extensions[resource_pb2.resource_definition].add()
    rdef.type = "lab.example.com/Res"
    rdef.pattern.append("things/{thing}")
    G.add_message(fd, "Lonely", [G.F("e", 1, T.TYPE_MESSAGE, type_name=M + "E")])
    G.add_message(fd, "E", [])
    G.add_message(fd, "Meta", [])
    G.add_message(fd, "Done", [G.F("f", 1, T.TYPE_MESSAGE, type_name=M + "F")])
    G.add_message(fd, "F", [])
    outer = G.add_message(fd, "Outer", [G.F("unrelated", 1, T.TYPE_MESSAGE, type_name=M + "G")])
    G.add_message(outer, "Nested", [G.F("y", 1, T.TYPE_STRING)])
    G.add_message(fd, "G", [])
    G.add_message(fd, "UsesNested", [G.F("n", 1, T.TYPE_MESSAGE, type_name=M + "Outer.Nested")])
    for n in ("GetAReq", "ListLonelyReq", "LongReq", "UseNestedReq", "OtherReq"):
        G.add_message(fd, n, [G.F("name", 1, T.TYPE_STRING)])
    s1 = G.add_service(fd, "S1")
    G.add_method(s1, "GetA", M + "GetAReq", M + "A", http=("get", "/v1/{name=a/*}"))
    G.add_method(s1, "ListLonely", M + "ListLonelyReq", M + "Lonely", http=("get", "/v1/{name=l/*}"))
    G.add_method(s1, "Long", M + "LongReq", ".google.longrunning.Operation", http=("post", "/v1/{name=l/*}:long"), body="*", lro=("Done", "Meta"))
    G.add_method(s1, "UseNested", M + "UseNestedReq", M + "UsesNested", http=("get", "/v1/{name=n/*}"))
    s2 = G.add_service(fd, "S2")
    G.add_method(s2, "Other", M + "OtherReq", M + "C", http=("get", "/v1/{name=o/*}"))
    # an rpc of the second service that shares its NAME with a listed rpc of the first (Get / List on every service)
    G.add_method(s2, "GetA", M + "OtherReq", M + "G", http=("get", "/v1/{name=o/*}:a"))
    # a service that declares no rpc at all: internal mode omits nothing, so it stays
    G.add_service(fd, "S3")
    return [k, rs, fd]


def expected_closure(fds, methods):
    """Least set of full type names closed under the statement's successor relation (fields, nested types, LRO types, resources)."""
    msgs, enums, nested_of, res_of = {}, set(), {}, {}
    from google.api import resource_pb2

    def walk(prefix, m):
        full = prefix + "." + m.name
        msgs[full] = m
        nested_of[full] = []
        r = m.options.Extensions[resource_pb2.resource].type
        if r:
            res_of[r] = full
        for e in m.enum_type:
            enums.add(full + "." + e.name); nested_of[full].append(full + "." + e.name)
        for n in m.nested_type:
            nested_of[full].append(full + "." + n.name); walk(full, n)
    for fd in fds:
        for e in fd.enum_type:
            enums.add(fd.package + "." + e.name)
        for m in fd.message_type:
            walk(fd.package, m)
    from google.longrunning import operations_pb2
    todo = []
    for fd in fds:
        for s in fd.service:
            for m in s.method:
                if f"{fd.package}.{s.name}.{m.name}" in methods:
                    todo += [m.input_type.lstrip("."), m.output_type.lstrip(".")]
                    oi = m.options.Extensions[operations_pb2.operation_info]
                    for t in (oi.response_type, oi.metadata_type):
                        if t:
                            todo.append(t if "." in t else fd.package + "." + t)
    seen = set()
    while todo:
        t = todo.pop()
        if t in seen or not t.startswith("acme."):
            continue
        seen.add(t)
        if t in msgs:
            for f in msgs[t].field:
                if f.type_name:
                    todo.append(f.type_name.lstrip("."))
                rr = f.options.Extensions[resource_pb2.resource_reference].type
                if rr and rr in res_of:
                    todo.append(res_of[rr])
            todo += nested_of[t]
    return {t for t in seen if not (t in msgs and msgs[t].options.map_entry)}


def _names(api):
    out = set()
    for p in api.protos.values():
        out |= set(p.all_messages) | set(p.all_enums)
    return {n for n in out if not n.rsplit(".", 1)[-1].endswith("Entry")}


def scenarios():
    from vf import genlab as G
    failures, cases = [], 0
    fds = files()
    all_methods = ["acme.lab.v1.S1.GetA", "acme.lab.v1.S1.ListLonely", "acme.lab.v1.S1.Long", "acme.lab.v1.S1.UseNested", "acme.lab.v1.S2.Other", "acme.lab.v1.S2.GetA"]
    full, _ = G.build_api(files(), "autogen-snippets=false")
    dep_before = {k: (sorted(v.all_messages), sorted(v.all_enums)) for k, v in full.all_protos.items() if k not in full.protos}
    subsets = [[m] for m in all_methods] + [[all_methods[0], all_methods[4]], [all_methods[1], all_methods[2]], all_methods]
    for sub in subsets:
        for internal in (False, True):
            cases += 1
            yaml = {"type": "google.api.Service", "config_version": 3, "name": "lab.example.com", "publishing": {"library_settings": [
                {"version": "acme.lab.v1", "python_settings": {"common": {"selective_gapic_generation": {"methods": sub, "generate_omitted_as_internal": internal}}}}]}}
            try:
                api, _ = G.build_api(files(), "autogen-snippets=false", service_yaml=yaml)
            except Exception as e:     # noqa
                failures.append({"subset": sub, "internal": internal, "error": repr(e)[:300]})
                continue
            label = {"subset": [m.rsplit(".", 1)[1] for m in sub], "internal": internal}
            kept_methods = {f"{s.meta.address.proto}.{m.name}" if False else f"acme.lab.v1.{s.name}.{m.name}" for s in api.services.values() for m in s.methods.values()}
            dep_after = {k: (sorted(v.all_messages), sorted(v.all_enums)) for k, v in api.all_protos.items() if k not in api.protos}
            if {k: v for k, v in dep_after.items() if k in dep_before} != {k: v for k, v in dep_before.items() if k in dep_after} or set(dep_after) != set(dep_before):
                failures.append(dict(label, what="dependency protos changed"))
            if internal:
                if kept_methods != set(all_methods) or _names(api) != _names(full) or {s.name for s in api.services.values()} != {s.name for s in full.services.values()}:
                    failures.append(dict(label, what="internal mode omitted something", methods=sorted(kept_methods), services=sorted(s.name for s in api.services.values())))
                for s in api.services.values():
                    for m in s.methods.values():
                        listed = f"acme.lab.v1.{s.name}.{m.name}" in sub
                        if m.is_internal == listed or m.client_method_name.startswith("_") == listed:
                            failures.append(dict(label, what=f"internal marking of {m.name}", is_internal=m.is_internal, client_method_name=m.client_method_name))
                    want_base = any(f"acme.lab.v1.{s.name}.{m.name}" not in sub for m in s.methods.values())
                    if s.client_name.startswith("Base") != want_base:
                        failures.append(dict(label, what=f"client name of {s.name}", client_name=s.client_name))
                continue
            if kept_methods != set(sub):
                failures.append(dict(label, what="exposed RPCs", got=sorted(kept_methods)))
            exp = expected_closure(fds, set(sub))
            got = _names(api)
            if got != exp:
                failures.append(dict(label, what="kept types differ from the closure of the listed RPCs", missing=sorted(exp - got), extra=sorted(got - exp)))
            # every kept nested type needs its enclosing messages to be emitted (nested classes are emitted inside their parent)
            for n in sorted(got):
                parts = n.split(".")
                for i in range(4, len(parts)):
                    anc = ".".join(parts[:i])
                    if anc not in got:
                        failures.append(dict(label, what="kept nested type without its enclosing message", nested=n, missing_parent=anc, known="F10"))
        # validation
    for bad in (["acme.lab.v1.S1.Nope"], ["acme.lab.v2.S1.GetA"]):
        cases += 1
        yaml = {"type": "google.api.Service", "config_version": 3, "name": "lab.example.com", "publishing": {"library_settings": [
            {"version": "acme.lab.v1", "python_settings": {"common": {"selective_gapic_generation": {"methods": bad}}}}]}}
        try:
            G.build_api(files(), "autogen-snippets=false", service_yaml=yaml)
            failures.append({"subset": bad, "what": "unknown / other-version method accepted"})
        except Exception as e:     # noqa
            if type(e).__name__ != "ClientLibrarySettingsError":
                failures.append({"subset": bad, "what": "rejected with an unexpected exception", "error": repr(e)[:200]})
    return {"cases": cases, "failures": failures}


def ext_files(ops_first):
    """Compute-style extended operations: an operation service (polling method Get + List) and a service whose RPCs name it as operation service."""
    from vf import genlab as G
    from google.cloud import extended_operations_pb2 as X
    T = G.T
    P = ".acme.net.v1."
    fd = G.new_file("acme/net/v1/networks.proto", "acme.net.v1", deps=G.STD_DEPS + ["google/cloud/extended_operations.proto"])
    op = G.add_message(fd, "Operation")
    st = op.enum_type.add(name="Status")
    for i, nm in enumerate(("UNDEFINED_STATUS", "DONE", "RUNNING")):
        st.value.add(name=nm, number=i)
    for name, number, typ, code in (("name", 1, T.TYPE_STRING, X.NAME), ("http_error_message", 2, T.TYPE_STRING, X.ERROR_MESSAGE), ("http_error_status_code", 3, T.TYPE_INT32, X.ERROR_CODE)):
        f = G.F(name, number, typ)
        f.options.Extensions[X.operation_field] = code
        op.field.append(f)
    f = G.F("status", 4, T.TYPE_ENUM, type_name=P + "Operation.Status")
    f.options.Extensions[X.operation_field] = X.STATUS
    op.field.append(f)
    f1 = G.F("operation", 1, T.TYPE_STRING, required=True)
    f1.options.Extensions[X.operation_response_field] = "name"
    G.add_message(fd, "GetGlobalOperationRequest", [f1, G.F("project", 2, T.TYPE_STRING, required=True)])
    G.add_message(fd, "ListGlobalOperationsRequest", [G.F("project", 1, T.TYPE_STRING, required=True)])
    G.add_message(fd, "OperationList", [G.F("items", 1, T.TYPE_MESSAGE, label=G.REPEATED, type_name=P + "Operation")])
    G.add_message(fd, "Network", [G.F("name", 1, T.TYPE_STRING)])
    f2 = G.F("project", 2, T.TYPE_STRING)
    f2.options.Extensions[X.operation_request_field] = "project"
    G.add_message(fd, "InsertNetworkRequest", [G.F("network_resource", 1, T.TYPE_MESSAGE, type_name=P + "Network"), f2])
    f3 = G.F("project", 2, T.TYPE_STRING)
    f3.options.Extensions[X.operation_request_field] = "project"
    G.add_message(fd, "DeleteNetworkRequest", [G.F("network", 1, T.TYPE_STRING), f3])

    def ops():
        s = G.add_service(fd, "GlobalOperations", host="net.example.com")
        m = G.add_method(s, "Get", P + "GetGlobalOperationRequest", P + "Operation", http=("get", "/v1/projects/{project}/global/operations/{operation}"), signatures=["project,operation"])
        m.options.Extensions[X.operation_polling_method] = True
        G.add_method(s, "List", P + "ListGlobalOperationsRequest", P + "OperationList", http=("get", "/v1/projects/{project}/global/operations"), signatures=["project"])

    def nets():
        s = G.add_service(fd, "Networks", host="net.example.com")
        m = G.add_method(s, "Insert", P + "InsertNetworkRequest", P + "Operation", http=("post", "/v1/projects/{project}/global/networks"), body="network_resource",
                         signatures=["project,network_resource"])
        m.options.Extensions[X.operation_service] = "GlobalOperations"
        m = G.add_method(s, "Delete", P + "DeleteNetworkRequest", P + "Operation", http=("delete", "/v1/projects/{project}/global/networks/{network}"), signatures=["project,network"])
        m.options.Extensions[X.operation_service] = "GlobalOperations"
    for part in ((ops, nets) if ops_first else (nets, ops)):
        part()
    return [fd]


def extended_scenarios():
    """Listed RPCs plus the extended-operation polling method they need; the library is generated and its client modules compile."""
    from vf import genlab as G
    from google.cloud import extended_operations_pb2 as X
    failures, cases = [], 0
    P = "acme.net.v1."
    subsets = [["Networks.Insert"], ["Networks.Insert", "GlobalOperations.List"], ["GlobalOperations.List"], ["Networks.Insert", "GlobalOperations.Get"],
               ["Networks.Delete", "Networks.Insert", "GlobalOperations.List"]]
    for ops_first in (True, False):
        for sub in subsets:
            cases += 1
            label = {"operation_service_declared_first": ops_first, "subset": sub}
            yaml = {"type": "google.api.Service", "config_version": 3, "name": "net.example.com", "publishing": {"library_settings": [
                {"version": "acme.net.v1", "python_settings": {"common": {"selective_gapic_generation": {"methods": [P + m for m in sub]}}}}]}}
            want = set(sub) | ({"GlobalOperations.Get"} if any(m.startswith("Networks.") for m in sub) else set())
            try:
                api, res = G.generate(ext_files(ops_first), "autogen-snippets=false,transport=rest", service_yaml=yaml, extra_dep_modules=(X,))
            except Exception as e:     # noqa
                failures.append(dict(label, what="generation failed for a valid method list", error=repr(e)[:300]))
                continue
            got = {f"{s.name}.{m.name}" for s in api.services.values() for m in s.methods.values()}
            if got != want:
                failures.append(dict(label, what="exposed RPCs are not the listed ones plus the polling method they need", got=sorted(got), want=sorted(want)))
            for f in res.file:
                if f.name.endswith(".py") and "/services/" in f.name:
                    try:
                        compile(f.content, f.name, "exec")
                    except SyntaxError as e:
                        failures.append(dict(label, what="emitted module does not compile", file=f.name, error=str(e)[:120]))
    # internal mode: the unlisted polling method is emitted as `_get`, and that is the method the kept extended-operation rpcs poll through
    import re
    cases += 1
    yaml = {"type": "google.api.Service", "config_version": 3, "name": "net.example.com", "publishing": {"library_settings": [
        {"version": "acme.net.v1", "python_settings": {"common": {"selective_gapic_generation": {"methods": [P + "Networks.Insert"], "generate_omitted_as_internal": True}}}}]}}
    try:
        api, res = G.generate(ext_files(True), "autogen-snippets=false,transport=rest", service_yaml=yaml, extra_dep_modules=(X,))
        src = next(f.content for f in res.file if f.name.endswith("services/networks/client.py"))
        ops = next(f.content for f in res.file if f.name.endswith("services/global_operations/client.py"))
        polled = set(re.findall(r"functools\.partial\(operation_service\.(\w+)", src))
        defined = set(re.findall(r"^    def (\w+)\(", ops, re.M))
        if not polled or not polled <= defined:
            failures.append({"internal": True, "what": "the kept extended-operation rpc polls through a method the operation service's client does not define",
                             "polled": sorted(polled), "defined_polling_candidates": sorted(d for d in defined if "get" in d)})
        # nothing is omitted and every unlisted rpc is internal - the polling rpc is unlisted here
        cases += 1
        marks = {f"{s_.name}.{m.name}": (m.is_internal, m.client_method_name) for s_ in api.services.values() for m in s_.methods.values()}
        wrong = {k: v for k, v in marks.items() if (k == "Networks.Insert") == (v[0] or v[1].startswith("_"))}
        if wrong or "_get" not in defined or "get" in defined:
            failures.append({"internal": True, "what": "an unlisted rpc (the operation polling rpc included) is not marked internal / a listed one is",
                             "wrong": wrong, "all": marks, "operations_client_defines": sorted(d for d in defined if "get" in d)})
        # every entry point of an rpc - the `<rpc>_unary` variant of extended-operation rpcs included - carries the underscore iff the rpc is unlisted
        cases += 1
        from gapic.utils import to_snake_case
        for s_ in api.services.values():
            text = next(f.content for f in res.file if f.name.endswith(f"services/{to_snake_case(s_.name)}/client.py"))
            defs = set(re.findall(r"^    def (\w+)\(", text, re.M))
            for m in s_.methods.values():
                listed = f"{s_.name}.{m.name}" == "Networks.Insert"
                base = to_snake_case(m.name)
                for ep in [base] + ([base + "_unary"] if m.operation_service else []):
                    want, other = (ep, "_" + ep) if listed else ("_" + ep, ep)
                    if want not in defs or other in defs:
                        failures.append({"internal": True, "what": "entry point of an rpc: leading underscore iff the rpc is unlisted", "service": s_.name, "rpc": m.name,
                                         "expected": want, "must_not_exist": other, "defined": sorted(d for d in defs if base in d)})
        names = {s_.name: (s_.client_name, s_.async_client_name) for s_ in api.services.values()}
        for sn, (cn, an) in names.items():
            all_internal = any(m.is_internal for m in api.services[next(k for k, v in api.services.items() if v.name == sn)].methods.values())
            if cn.startswith("Base") != all_internal or an.startswith("Base") != all_internal:
                failures.append({"internal": True, "what": "client class prefix `Base` iff the service has an unlisted (internal) rpc", "service": sn, "client": cn, "async_client": an, "has_internal": all_internal})
    except Exception as e:     # noqa
        failures.append({"internal": True, "what": "generation failed", "error": repr(e)[:300]})
    return {"cases": cases, "failures": failures}


def subpackage_selective():
    """Listed rpcs of a service declared in a sub-package of the API are kept (and only they), in pruning and in internal mode."""
    from vf import genlab as G
    T = G.T
    failures, cases = [], 0

    def fs():
        kinds = G.new_file("acme/sel/v1/kinds/kinds.proto", "acme.sel.v1.kinds")
        bar = G.add_message(kinds, "Bar", [G.F("inner", 1, T.TYPE_MESSAGE, type_name=".acme.sel.v1.kinds.Bar.Inner"),
                                           G.F("qux", 2, T.TYPE_MESSAGE, type_name=".acme.sel.v1.kinds.Qux"),
                                           G.F("kind", 3, T.TYPE_ENUM, type_name=".acme.sel.v1.kinds.Kind")])
        G.add_message(bar, "Inner", [G.F("deep", 1, T.TYPE_MESSAGE, type_name=".acme.sel.v1.kinds.Deep")])
        G.add_message(kinds, "Qux", [G.F("q", 1, T.TYPE_STRING)])
        G.add_message(kinds, "Deep", [G.F("d", 1, T.TYPE_STRING)])
        G.add_message(kinds, "Unreached", [G.F("u", 1, T.TYPE_STRING)])
        k = kinds.enum_type.add(name="Kind")
        k.value.add(name="KIND_UNSPECIFIED", number=0)
        root = G.new_file("acme/sel/v1/common.proto", "acme.sel.v1", deps=G.STD_DEPS + ["acme/sel/v1/kinds/kinds.proto"])
        G.add_message(root, "Req", [G.F("name", 1, T.TYPE_STRING)])
        G.add_message(root, "Record", [G.F("x", 1, T.TYPE_STRING), G.F("bar", 2, T.TYPE_MESSAGE, type_name=".acme.sel.v1.kinds.Bar")])
        G.add_message(root, "Unused", [G.F("y", 1, T.TYPE_STRING)])
        sub = G.new_file("acme/sel/v1/archive/archive.proto", "acme.sel.v1.archive", deps=G.STD_DEPS + ["acme/sel/v1/common.proto"])
        G.add_message(sub, "ListReq", [G.F("parent", 1, T.TYPE_STRING)])
        sv = G.add_service(sub, "Archive")
        G.add_method(sv, "GetRecord", ".acme.sel.v1.Req", ".acme.sel.v1.Record", http=("get", "/v1/{name=r/*}"))
        G.add_method(sv, "ListRecords", ".acme.sel.v1.archive.ListReq", ".acme.sel.v1.Record", http=("get", "/v1/{parent=p/*}/records"))
        return [kinds, root, sub]
    reach = {"acme.sel.v1.kinds." + n for n in ("Bar", "Bar.Inner", "Qux", "Deep", "Kind")}
    for internal in (False, True):
        cases += 1
        yaml = {"type": "google.api.Service", "config_version": 3, "name": "sel.example.com", "publishing": {"library_settings": [
            {"version": "acme.sel.v1", "python_settings": {"common": {"selective_gapic_generation": {
                "methods": ["acme.sel.v1.archive.Archive.GetRecord"], "generate_omitted_as_internal": internal}}}}]}}
        try:
            api, _ = G.build_api(fs(), "autogen-snippets=false", service_yaml=yaml)
        except Exception as e:     # noqa
            failures.append({"internal": internal, "what": "a listed rpc of a sub-package service is rejected / the API cannot be built", "error": repr(e)[:300]})
            continue
        ms = {m.name: m for s_ in api.services.values() for m in s_.methods.values()}
        if internal:
            if set(ms) != {"GetRecord", "ListRecords"} or ms["GetRecord"].is_internal or not ms["ListRecords"].is_internal:
                failures.append({"internal": True, "what": "internal marking of the rpcs of a sub-package service", "got": {k: v.is_internal for k, v in ms.items()}})
        else:
            names = _names(api)
            if set(ms) != {"GetRecord"} or "acme.sel.v1.Unused" in names or "acme.sel.v1.archive.ListReq" in names or "acme.sel.v1.Record" not in names:
                failures.append({"internal": False, "what": "kept rpcs / types for a listed rpc of a sub-package service", "rpcs": sorted(ms), "types": sorted(names)})
            cases += 1
            if not reach <= names or "acme.sel.v1.kinds.Unreached" in names:
                failures.append({"internal": False, "what": "types reachable only through a message of a types sub-package (fields, nested types, enums) are kept, unreachable ones dropped",
                                 "missing": sorted(reach - names), "unreached_kept": "acme.sel.v1.kinds.Unreached" in names})
    return {"cases": cases, "failures": failures}
