#!/bin/bash
# Build the overlay interpreter /verif/.venv (CPython 3.12 + z3 + cvc5 + jsonschema, plus /venv's site-packages
# through a .pth so that gapic, jinja2, protobuf, proto-plus, grpc and api-core import in the same process).
# Offline: wheels come from /opt/veriftools/wheels only.
set -e
cd "$(dirname "$0")"
PY=/root/.pyenv/versions/3.12.1/bin/python
[ -x "$PY" ] || PY=$(readlink -f /venv/bin/python)
if [ ! -x .venv/bin/python ] || ! .venv/bin/python -c "import z3, cvc5, jsonschema, jinja2, gapic" 2>/dev/null; then
  rm -rf .venv
  "$PY" -m venv .venv
  PIP_NO_INDEX=1 .venv/bin/pip install -q --no-index --find-links /opt/veriftools/wheels z3-solver cvc5 jsonschema
  SP=$(.venv/bin/python -c "import site; print(site.getsitepackages()[0])")
  echo "import site; site.addsitedir('/venv/lib/python3.12/site-packages')" > "$SP/repo_deps.pth"
fi
.venv/bin/python -c "import z3, cvc5, jsonschema, jinja2, gapic; print('overlay venv ok: z3', z3.get_version_string())"
