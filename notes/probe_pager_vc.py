from z3 import *
Resp = DeclareSort('Resp'); Req = DeclareSort('Req'); Tok = StringSort()
tok = Function('next_page_token', Resp, Tok); rest = Function('rest', Req, IntSort()); ptok = Function('page_token', Req, Tok)
call = Function('method', Req, Resp); setp = Function('set_page_token', Req, Tok, Req)
r, t = Const('r', Req), Const('t', Tok)
ax = [ForAll([r, t], And(ptok(setp(r, t)) == t, rest(setp(r, t)) == rest(r)))]
AY = ArraySort(IntSort(), Resp); AQ = ArraySort(IntSort(), Req)
def inv(y, ny, q, nq, resp, req, req0, resp0):
    i = Int('i')
    return And(ny >= 1, y[0] == resp0, nq == ny - 1, y[ny - 1] == resp,
               ForAll([i], Implies(And(0 <= i, i < nq),
                    And(ptok(q[i]) == tok(y[i]), rest(q[i]) == rest(req0), y[i + 1] == call(q[i]), tok(y[i]) != ""))),
               rest(req) == rest(req0))
y = Const('y', AY); q = Const('q', AQ); ny, nq = Ints('ny nq')
resp, resp0 = Consts('resp resp0', Resp); req, req0 = Consts('req req0', Req)
def check(name, f, use_cvc5=False):
    S = Solver(); S.set(timeout=30000); S.add(ax); S.add(Not(f)); print(name, S.check())
y0 = Store(y, 0, resp0)
check('init', inv(y0, 1, q, 0, resp0, req0, req0, resp0))
def step(req2):
    resp2 = call(req2)
    return Implies(And(inv(y, ny, q, nq, resp, req, req0, resp0), tok(resp) != ""),
               inv(Store(y, ny, resp2), ny + 1, Store(q, nq, req2), nq + 1, resp2, req2, req0, resp0))
check('step', step(setp(req, tok(resp))))
i = Int('i')
check('exit', Implies(And(inv(y, ny, q, nq, resp, req, req0, resp0), tok(resp) == ""),
      And(tok(y[ny - 1]) == "", ForAll([i], Implies(And(0 <= i, i < ny - 1), tok(y[i]) != "")))))
check('mutant-no-token', step(req))
check('mutant-stale-token', step(setp(req, ptok(req))))
