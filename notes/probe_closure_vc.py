# VC feasibility: MessageType.add_to_address_allowlist closure contract (C16)
from z3 import *
N = DeclareSort('Node')
succ = Function('succ', N, N, BoolSort())          # spec successor relation (fields, nested, refs)
Set = ArraySort(N, BoolSort())
def Closed(A, S):
    m, s = Consts('m s', N)
    return ForAll([m, s], Implies(And(A[m], Not(S[m]), succ(m, s)), A[s]))
def Sub(A, B):
    x = Const('x', N); return ForAll([x], Implies(A[x], B[x]))
A0, S0 = Consts('A0 S0', Set)
self_ = Const('self', N)
solver = Solver(); solver.set(timeout=20000)
# Path 1: self already in A0 -> return unchanged
vc1 = Implies(And(Closed(A0, S0), A0[self_]), And(Closed(A0, S0), A0[self_], Sub(A0, A0)))
# Path 2: not in A0. A1 = A0+{self}, S1 = S0+{self}; loop over successors modelled by: invariant Inv(A) := Closed(A,S1) & Sub(A1,A) & forall visited succ in A
A1 = Store(A0, self_, True); S1 = Store(S0, self_, True)
# establish Closed(A1,S1)
vc2a = Implies(And(Closed(A0, S0), Not(A0[self_])), Closed(A1, S1))
# callee contract (recursive call on child c): requires Closed(A,S1); ensures Closed(A',S1) & A'[c] & Sub(A,A')
# after loop: An with Closed(An,S1), Sub(A1,An), forall s. succ(self,s) -> An[s]   (loop invariant at exit, over all successors)
An = Const('An', Set); s = Const('s', N)
post_loop = And(Closed(An, S1), Sub(A1, An), ForAll([s], Implies(succ(self_, s), An[s])))
vc2b = Implies(And(Closed(A0, S0), Not(A0[self_]), Not(S0[self_]) if False else True, post_loop), And(Closed(An, S0), An[self_], Sub(A0, An)))
for name, vc in [('vc1', vc1), ('vc2a', vc2a), ('vc2b', vc2b)]:
    solver.push(); solver.add(Not(vc)); r = solver.check(); print(name, 'valid' if r == unsat else r); solver.pop()
# mutation: loop forgets nested messages => exit invariant only covers field successors
fs = Function('fsucc', N, N, BoolSort())
ax = ForAll([self_, s], Implies(fs(self_, s), succ(self_, s)))
post_loop_m = And(Closed(An, S1), Sub(A1, An), ForAll([s], Implies(fs(self_, s), An[s])))
vcm = Implies(And(ax, Closed(A0, S0), Not(A0[self_]), post_loop_m), And(Closed(An, S0), An[self_], Sub(A0, An)))
solver.push(); solver.add(Not(vcm)); r = solver.check(); print('mutant', 'valid' if r == unsat else r); solver.pop()
