import deal
from gapic.utils import lines as _lines
from gapic.utils import case as _case
import keyword

def _words(s: str):
    return s.split()

@deal.pre(lambda text, width: 4 <= width <= 30 and len(text) <= 40)
@deal.ensure(lambda text, width, result: _words(result) == _words(text))
def wrap(text: str, width: int) -> str:
    return _lines.wrap(text, width)

@deal.pre(lambda s: s.isidentifier() and len(s) <= 8)
@deal.ensure(lambda s, result: (result not in keyword.kwlist) or (s.lower() in keyword.kwlist))
def snake(s: str) -> str:
    return _case.to_snake_case(s)
