"""Prototype: concolic rendering of real Jinja templates against symbolic schema proxies."""
import itertools, re, sys
import jinja2
from gapic.generator.generator import Generator
from gapic.utils import Options

class Oracle:
    def __init__(self, script):
        self.script = list(script); self.i = 0; self.log = []; self.memo = {}
    def decide(self, key, options):
        if key in self.memo: return self.memo[key]
        if self.i < len(self.script): v = self.script[self.i]
        else: v = options[0]
        self.i += 1
        self.log.append((key, v, options)); self.memo[key] = v
        return v
ORACLE = None
HOLES = {}
def hole(path):
    tok = "H%d_" % (len(HOLES))
    for k, v in HOLES.items():
        if v == path: return k
    HOLES[tok] = path
    return tok

class Sym:
    def __init__(self, path): object.__setattr__(self, "_p", path)
    def __getattr__(self, name):
        if name.startswith("__"): raise AttributeError(name)
        return Sym(f"{self._p}.{name}")
    def __call__(self, *a, **k):
        args = ",".join([repr(x) if not isinstance(x, Sym) else x._p for x in a] + [f"{n}={v._p if isinstance(v,Sym) else v!r}" for n, v in k.items()])
        return Sym(f"{self._p}({args})")
    def __getitem__(self, k): return Sym(f"{self._p}[{k._p if isinstance(k,Sym) else k!r}]")
    def __str__(self): return hole(self._p)
    def __html__(self): return str(self)
    def __bool__(self): return ORACLE.decide(("bool", self._p), [False, True])
    def __eq__(self, o): return ORACLE.decide(("eq", self._p, o._p if isinstance(o, Sym) else repr(o)), [False, True])
    def __ne__(self, o): return not self.__eq__(o)
    def __hash__(self): return hash(self._p)
    def __contains__(self, o): return ORACLE.decide(("in", o._p if isinstance(o, Sym) else repr(o), self._p), [False, True])
    def __len__(self): return ORACLE.decide(("len", self._p), [0, 1, 2])
    def __iter__(self):
        n = ORACLE.decide(("len", self._p), [0, 1, 2])
        for i in range(n):
            if self._p.endswith(".items()"): yield (Sym(f"{self._p}[{i}].k"), Sym(f"{self._p}[{i}].v"))
            else: yield Sym(f"{self._p}[{i}]")
    def __add__(self, o): return Sym(f"({self._p}+{o!r})")
    def __radd__(self, o): return Sym(f"({o!r}+{self._p})")

def wrap_filter(name, f):
    def g(x, *a, **k):
        if isinstance(x, Sym):
            return Sym(f"{x._p}|{name}" + (f"({a},{k})" if a or k else ""))
        return f(x, *a, **k)
    return g

def explore(render, maxruns=5000):
    global ORACLE
    results = []; stack = [[]]; seen = 0
    while stack and seen < maxruns:
        script = stack.pop(); ORACLE = Oracle(script); HOLES.clear()
        try: out = render()
        except Exception as e: out = "ERROR %r" % (e,)
        seen += 1
        results.append((list(ORACLE.log), out, dict(HOLES)))
        # branch on decisions beyond the script prefix
        for j in range(len(script), len(ORACLE.log)):
            key, v, options = ORACLE.log[j]
            for alt in options:
                if alt != v:
                    stack.append([d[1] for d in ORACLE.log[:j]] + [alt])
    return results

if __name__ == "__main__":
    g = Generator(Options.build(""))
    env = g._env
    for n in ("snake_case", "camel_case", "rst", "wrap", "make_private", "coerce_response_name", "render_format_string"):
        env.filters[n] = wrap_filter(n, env.filters[n])
    for n in ("join", "sort", "replace", "string", "list", "map", "selectattr", "dictsort", "unique", "trim", "indent", "length"):
        pass
    T = "%namespace/%name_%version/%sub/services/%service/_shared_macros.j2"
    mod = env.get_template(T).module
    res = explore(lambda: str(mod.auto_populate_uuid4_fields(Sym("api"), Sym("method"))))
    print(len(res), "variants")
    for log, out, holes in res:
        print("----", [(k, v) for k, v, _ in log]); print(out); print(holes)

def run_client_method():
    g = Generator(Options.build(""))
    env = g._env
    for n in ("snake_case", "camel_case", "rst", "wrap", "make_private"):
        env.filters[n] = wrap_filter(n, env.filters[n])
    T = "%namespace/%name_%version/%sub/services/%service/_client_macros.j2"
    mod = env.get_template(T).module
    import collections
    res = explore(lambda: str(mod.client_method(Sym("method"), Sym("name"), Sym("snippet_index"), Sym("api"), Sym("service"))), maxruns=20000)
    print(len(res), "variants")
    errs = [r for r in res if r[1].startswith("ERROR")]
    print(len(errs), "errors"); 
    for e in errs[:3]: print(e[1], [(k,v) for k,v,_ in e[0]][-3:])
    keys = collections.Counter(k for log,_,_ in res for k,_,_ in log)
    for k,c in keys.most_common(60): print(c,k)
    ok = [r for r in res if not r[1].startswith("ERROR")]
    print(ok[len(ok)//2][1])
