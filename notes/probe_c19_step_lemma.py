import time, subprocess
from z3 import *
a, b, l, r, s_, d = Strings('a b l r s d')
S = Solver(); S.set(timeout=20000)
S.add(Length(d) == 1, PrefixOf(d, l), Not(Contains(a, d)), Not(Contains(b, d)))
S.add(Concat(a, l, r) == Concat(b, l, s_))
S.add(a != b)
t = time.time(); print("z3 step lemma:", S.check(), round(time.time() - t, 2))
open("/tmp/step.smt2", "w").write("(set-logic QF_SLIA)\n" + S.to_smt2())
t = time.time(); out = subprocess.run(["/usr/bin/cvc5", "--strings-exp", "--tlimit=20000", "/tmp/step.smt2"], capture_output=True, text=True).stdout.strip(); print("cvc5 step lemma:", out, round(time.time() - t, 2))
# position formulation: a is determined as prefix up to first index of d
S2 = Solver(); S2.set(timeout=20000)
p = String('p')
S2.add(Length(d) == 1, PrefixOf(d, l), Not(Contains(a, d)), p == Concat(a, l, r))
S2.add(Not(a == SubString(p, 0, IndexOf(p, d, 0))))
t = time.time(); print("z3 position lemma:", S2.check(), round(time.time() - t, 2))
open("/tmp/pos.smt2", "w").write("(set-logic QF_SLIA)\n" + S2.to_smt2())
t = time.time(); out = subprocess.run(["/usr/bin/cvc5", "--strings-exp", "--tlimit=20000", "/tmp/pos.smt2"], capture_output=True, text=True).stdout.strip(); print("cvc5 position lemma:", out, round(time.time() - t, 2))
