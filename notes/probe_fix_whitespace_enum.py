import itertools, collections
from gapic.generator.formatter import fix_whitespace as f
alpha = ["x", " ", "\n", "\t", "#", "@", "    ", "def", "_"]
bad = collections.Counter(); ex = {}; n = 0
for L in range(0, 8):
    for combo in itertools.product(alpha, repeat=L):
        s = "".join(combo); n += 1
        o = f(s)
        if f(o) != o: bad["idem"] += 1; ex.setdefault("idem", (s, o, f(o)))
        if not o.endswith("\n") or o.endswith("\n\n") : bad["end"] += 1; ex.setdefault("end", (s, o))
        if "".join(o.split()) != "".join(s.split()): bad["chars"] += 1; ex.setdefault("chars", (s, o))
        # leading indentation of every non-blank line preserved
        li = [l[:len(l)-len(l.lstrip())] + "|" + l.strip() for l in s.split("\n") if l.strip()]
        lo = [l[:len(l)-len(l.lstrip())] + "|" + l.strip() for l in o.split("\n") if l.strip()]
        if li != lo: bad["indent"] += 1; ex.setdefault("indent", (s, o))
print(n, dict(bad))
for k, v in ex.items(): print(k, repr(v))
