import sys; sys.path.insert(0, '/verif/notes')
import jinja2
from jinja2 import nodes
import probe_symrender as SR
from probe_symrender import Sym, explore, wrap_filter
from gapic.generator.generator import Generator
from gapic.utils import Options

g = Generator(Options.build("")); env = g._env
for n in ("snake_case", "camel_case", "rst", "wrap", "make_private"):
    env.filters[n] = wrap_filter(n, env.filters[n])
T = "%namespace/%name_%version/%sub/services/%service/_client_macros.j2"
src = env.loader.get_source(env, T)[0]
tree = env.parse(src, T, T)
macro = [m for m in tree.find_all(nodes.Macro) if m.name == "client_method"][0]
# locate region: the If on "not method.client_streaming" that contains 'flattened_params', up to Output containing '_wrapped_methods'
def has_data(n, s):
    return any(s in d.data for d in n.find_all(nodes.TemplateData))
body = macro.body
start = next(i for i, n in enumerate(body) if isinstance(n, nodes.If) and has_data(n, "flattened_params"))
end = next(i for i, n in enumerate(body) if isinstance(n, nodes.Output) and has_data(n, "_wrapped_methods"))
print("region nodes", start, end, [type(n).__name__ for n in body[start:end+1]])
imports = [n for n in tree.body if isinstance(n, (nodes.Import, nodes.FromImport))]
region_macro = nodes.Macro("region", macro.args, macro.defaults, body[start:start+1], lineno=macro.lineno)
new_tree = nodes.Template(imports + [region_macro], lineno=1)
new_tree.set_environment(env)
code = env.compile(new_tree, T + "#region", T)
tmpl = jinja2.Template.from_code(env, code, env.make_globals(None), None)
mod = tmpl.module
res = explore(lambda: str(mod.region(Sym("method"), Sym("name"), Sym("snippet_index"), Sym("api"), Sym("service"))), maxruns=50000)
print(len(res), "variants;", sum(1 for r in res if r[1].startswith("ERROR")), "errors")
import ast, textwrap, collections
distinct = collections.Counter()
for log, out, holes in res:
    if out.startswith("ERROR"): print(out); continue
    try:
        t = ast.parse(textwrap.dedent("def f():\n" + out if False else "if 1:\n" + out))
        distinct[ast.dump(t)] += 1
    except SyntaxError as e:
        distinct["SYNTAX " + e.msg] += 1
print(len(distinct), "distinct ASTs"); print([k[:60] for k in distinct if k.startswith("SYNTAX")])
keys = collections.Counter(k for log,_,_ in res for k,_,_ in log)
for k,c in keys.most_common(30): print(c,k)
