"""Probe: run the real generator in-process on hand-built descriptors."""
import os, sys, tempfile, json
from google.protobuf import descriptor_pb2 as d
from google.protobuf.compiler import plugin_pb2
from google.api import annotations_pb2, client_pb2, resource_pb2, field_behavior_pb2
from google.protobuf import empty_pb2, descriptor_pb2, any_pb2, timestamp_pb2, duration_pb2, field_mask_pb2, struct_pb2, wrappers_pb2
from google.longrunning import operations_pb2
from google.rpc import status_pb2
from google.api import http_pb2, launch_stage_pb2, field_info_pb2, routing_pb2

def dep_files():
    out = []
    seen = set()
    def add(fdesc):
        if fdesc.name in seen: return
        for dep in fdesc.dependencies: add(dep)
        seen.add(fdesc.name)
        fp = d.FileDescriptorProto(); fdesc.CopyToProto(fp); out.append(fp)
    for m in (annotations_pb2, client_pb2, resource_pb2, field_behavior_pb2, empty_pb2, operations_pb2, field_info_pb2, routing_pb2, wrappers_pb2, struct_pb2):
        add(m.DESCRIPTOR)
    return out

def F(name, number, type_, label=1, type_name="", **kw):
    f = d.FieldDescriptorProto(name=name, number=number, type=type_, label=label, json_name=name, **kw)
    if type_name: f.type_name = type_name
    return f

def generate(files, to_generate, params=""):
    from gapic.utils import Options
    from gapic.schema import api
    from gapic import generator
    req = plugin_pb2.CodeGeneratorRequest(parameter=params)
    req.proto_file.extend(dep_files()); req.proto_file.extend(files)
    req.file_to_generate.extend(to_generate)
    opts = Options.build(req.parameter)
    package = os.path.commonprefix([p.package for p in req.proto_file if p.name in req.file_to_generate]).rstrip(".")
    api_schema = api.API.build(req.proto_file, opts=opts, package=package)
    res = generator.Generator(opts).get_response(api_schema, opts)
    return api_schema, res
