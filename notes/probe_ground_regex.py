import re, time
try: import re._parser as sre_parse, re._constants as C
except ImportError: import sre_parse, sre_constants as C
from z3 import *
SS = StringSort(); RS = ReSort(SS)
ANY = AllChar(RS)
def notchars(chars):  # [^...]
    r = None
    for c in chars: r = Re(c) if r is None else Union(r, Re(c))
    return Intersect(ANY, Complement(r))
def tr(seq):
    parts = []
    for op, av in seq:
        op = str(op)
        if op == "LITERAL": parts.append(Re(chr(av)))
        elif op == "ANY": parts.append(notchars(["\n"]))
        elif op == "NOT_LITERAL": parts.append(notchars([chr(av)]))
        elif op == "IN":
            neg = str(av[0][0]) == "NEGATE"; items = av[1:] if neg else av
            chars = [chr(v) for o, v in items if str(o) == "LITERAL"]
            parts.append(notchars(chars) if neg else (Union(*[Re(c) for c in chars]) if len(chars) > 1 else Re(chars[0])))
        elif op in ("MAX_REPEAT", "MIN_REPEAT"):
            lo, hi, sub = av; s = tr(sub)
            if lo == 0 and str(hi) == "MAXREPEAT": parts.append(Star(s))
            elif lo == 1 and str(hi) == "MAXREPEAT": parts.append(Plus(s))
            elif lo == 0 and hi == 1: parts.append(Option(s))
            else: raise NotImplementedError((lo, hi))
        elif op == "SUBPATTERN": parts.append(tr(av[3]))
        elif op == "AT": pass   # ^ and $ handled by caller (approximation: $ before final \n ignored here)
        else: raise NotImplementedError(op)
    if not parts: return Re("")
    return parts[0] if len(parts) == 1 else Concat(*parts)
from gapic.schema.wrappers import RoutingParameter
def equiv(A, B, timeout=20000):
    s = String('s'); S = Solver(); S.set(timeout=timeout); S.add(InRe(s, A) != InRe(s, B)); r = S.check(); return r, (S.model()[s] if r == sat else None)
NS = Plus(notchars(["/"]))
tests = {
  "{name=projects/*/**}": Concat(Re("projects/"), NS, Option(Concat(Re("/"), Star(ANY)))),
  "{k=projects/*}/foo": Concat(Re("projects/"), NS, Re("/foo")),
  "{k=**}": Star(ANY),
  "projects/*/{k=instances/*}/**": Concat(Re("projects/"), NS, Re("/instances/"), NS, Option(Concat(Re("/"), Star(ANY)))),
}
for tmpl, spec in tests.items():
    rx = RoutingParameter("f", tmpl).to_regex().pattern
    t = time.time(); print(tmpl, rx, *equiv(tr(sre_parse.parse(rx)), spec), round(time.time() - t, 2))
