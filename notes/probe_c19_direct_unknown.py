# C19 semantic lemma: uniqueness of decomposition p = l0 x1 l1 x2 l2 ... under delimiter hypothesis
import sys, time
from z3 import *
def lemma(n, timeout=20000):
    L = [String(f"l{i}") for i in range(n + 1)]
    X = [String(f"x{i}") for i in range(1, n + 1)]
    Y = [String(f"y{i}") for i in range(1, n + 1)]
    def build(vals):
        parts = [L[0]]
        for i in range(n): parts += [vals[i], L[i + 1]]
        return Concat(*parts) if len(parts) > 1 else parts[0]
    s = Solver(); s.set(timeout=timeout)
    # hypothesis: every inner literal l_i (1 <= i <= n-1) is non-empty and starts with a delimiter char d_i; values contain no delimiter char; values non-empty
    D = [String(f"d{i}") for i in range(1, n + 1)]
    for i in range(1, n + 1):
        if i < n:
            s.add(Length(D[i-1]) == 1, PrefixOf(D[i-1], L[i]))
        for v in (X, Y):
            s.add(Length(v[i-1]) > 0)
            for j in range(1, n):      # no value contains any delimiter
                s.add(Not(Contains(v[i-1], D[j-1])))
    s.add(build(X) == build(Y))
    s.add(Or(*[X[i] != Y[i] for i in range(n)]))
    t = time.time(); r = s.check(); return r, time.time() - t
for n in (1, 2, 3, 4):
    print(n, *lemma(n))

def smt2(n):
    L = [String(f"l{i}") for i in range(n + 1)]
    X = [String(f"x{i}") for i in range(1, n + 1)]
    Y = [String(f"y{i}") for i in range(1, n + 1)]
    def build(vals):
        parts = [L[0]]
        for i in range(n): parts += [vals[i], L[i + 1]]
        return Concat(*parts)
    s = Solver()
    D = [String(f"d{i}") for i in range(1, n + 1)]
    for i in range(1, n + 1):
        if i < n:
            s.add(Length(D[i-1]) == 1, PrefixOf(D[i-1], L[i]))
        for v in (X, Y):
            s.add(Length(v[i-1]) > 0)
            for j in range(1, n):
                s.add(Not(Contains(v[i-1], D[j-1])))
    s.add(build(X) == build(Y))
    s.add(Or(*[X[i] != Y[i] for i in range(n)]))
    return "(set-logic QF_SLIA)\n" + s.to_smt2()
import subprocess
for n in (2, 3, 4, 6):
    open(f"/tmp/c19_{n}.smt2", "w").write(smt2(n))
    t = time.time()
    try:
        out = subprocess.run(["/usr/bin/cvc5", "--strings-exp", "--tlimit=30000", f"/tmp/c19_{n}.smt2"], capture_output=True, text=True, timeout=40).stdout.strip()
    except subprocess.TimeoutExpired: out = "timeout"
    print("cvc5", n, out, round(time.time() - t, 2))
