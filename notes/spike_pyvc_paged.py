"""THROW-AWAY SPIKE (design-time probe, not the framework).

Question: can a small ast->z3 path executor, reading the real source of
`Method.paged_result_field` / `_validate_paged_field_size_type` from /repo, decide the
C07 classification contract written from the property sentence — and does the solver
report the two corners where the code and the literal sentence differ?

Run:  cd /repo && <overlay-python> /verif/notes/spike_pyvc_paged.py
"""
import ast, inspect, sys, time, textwrap
from z3 import *

SRC = open("/repo/gapic/schema/wrappers.py").read()
TREE = ast.parse(SRC)


def find_method(cls, name):
    for n in TREE.body:
        if isinstance(n, ast.ClassDef) and n.name == cls:
            for m in n.body:
                if isinstance(m, ast.FunctionDef) and m.name == name:
                    return m
    raise KeyError((cls, name))


# ---------------------------------------------------------------- schema model
Obj = DeclareSort("Obj")
NONE = Const("NONE", Obj)
PY_STR, PY_INT = Consts("PY_STR PY_INT", Obj)          # the bare python types `str`, `int`
fields_get = Function("fields_get", Obj, StringSort(), Obj)   # msg.fields.get(name)
nfields = Function("nfields", Obj, IntSort())
field_at = Function("field_at", Obj, IntSort(), Obj)   # msg.fields.values()[i]
ftype = Function("ftype", Obj, Obj)                    # Field.type
repeated = Function("repeated", Obj, BoolSort())       # Field.repeated
prim_of = Function("prim_of", Obj, Obj)                # PrimitiveType.python_type (NONE if not primitive)
is_msg = Function("is_msg", Obj, BoolSort())           # isinstance(t, MessageType)
msg_name = Function("msg_name", Obj, StringSort())     # t.message_pb.name
msg_pkg = Function("msg_pkg", Obj, StringSort())       # proto package of t
m_input = Function("m_input", Obj, Obj)
m_output = Function("m_output", Obj, Obj)

i_, j_ = Ints("i j")
o_ = Const("o", Obj)
AXIOMS = [
    PY_STR != PY_INT, PY_STR != NONE, PY_INT != NONE,
    ForAll([o_], nfields(o_) >= 0),
    ForAll([o_, i_], Implies(And(0 <= i_, i_ < nfields(o_)), field_at(o_, i_) != NONE)),
    # a type object is either primitive or a message/enum, never both
    ForAll([o_], Implies(is_msg(o_), prim_of(o_) == NONE)),
]


class Return(Exception):
    pass


class Exec:
    """Path-based symbolic executor for the tiny subset these two functions use."""

    def __init__(self, self_obj):
        self.self_obj = self_obj
        self.vcs = []          # (name, formula) proof obligations generated on the way (loop invariants)
        self.outcomes = []     # (path condition, return value)

    # ---- expressions -> (z3 term, kind) ; kind in {"obj","bool","str","pytype","tuple","set"}
    def ev(self, e, env):
        if isinstance(e, ast.Constant):
            if e.value is None: return NONE
            if isinstance(e.value, str): return StringVal(e.value)
            if isinstance(e.value, bool): return BoolVal(e.value)
        if isinstance(e, ast.Name):
            if e.id == "str": return PY_STR
            if e.id == "int": return PY_INT
            if e.id == "self": return self.self_obj
            return env[e.id]
        if isinstance(e, ast.Tuple): return tuple(self.ev(x, env) for x in e.elts)
        if isinstance(e, ast.Set): return ("set", [self.ev(x, env) for x in e.elts])
        if isinstance(e, ast.Attribute):
            base = e.value
            if isinstance(base, ast.Name) and base.id == "self" and e.attr == "input": return m_input(self.self_obj)
            if isinstance(base, ast.Name) and base.id == "self" and e.attr == "output": return m_output(self.self_obj)
            v = self.ev(base, env)
            if e.attr == "fields": return ("fields", v)
            if e.attr == "type": return ftype(v)
            if e.attr == "repeated": return repeated(v)
            if e.attr == "message_pb": return ("message_pb", v)
            if e.attr == "name" and isinstance(v, tuple) and v[0] == "message_pb": return msg_name(v[1])
            raise NotImplementedError(ast.dump(e))
        if isinstance(e, ast.Call):
            f = e.func
            if isinstance(f, ast.Attribute) and f.attr == "get":
                recv = self.ev(f.value, env)
                assert recv[0] == "fields"
                return fields_get(recv[1], self.ev(e.args[0], env))
            if isinstance(f, ast.Attribute) and f.attr == "values":
                recv = self.ev(f.value, env); assert recv[0] == "fields"
                return ("values", recv[1])
            if isinstance(f, ast.Name) and f.id == "isinstance":
                v = self.ev(e.args[0], env); assert isinstance(e.args[1], ast.Name) and e.args[1].id == "MessageType"
                return is_msg(v)
            if isinstance(f, ast.Name) and f.id == "next":
                # next((x for x in <tuple var> if x), default)
                gen, default = e.args
                assert isinstance(gen, ast.GeneratorExp) and len(gen.generators) == 1
                comp = gen.generators[0]
                seq = self.ev(comp.iter, env); assert isinstance(seq, tuple)
                res = self.ev(default, env)
                for item in reversed(seq):
                    env2 = dict(env); env2[comp.target.id] = item
                    cond = And(*[self.truthy(self.ev(c, env2)) for c in comp.ifs]) if comp.ifs else BoolVal(True)
                    res = If(cond, self.ev(gen.elt, env2), res)
                return res
            if isinstance(f, ast.Attribute) and isinstance(f.value, ast.Name) and f.value.id == "self" and f.attr == "_validate_paged_field_size_type":
                # callee: inlined HERE only because the spike has no contract store; the real pyvc uses the callee's contract
                callee = find_method("Method", f.attr)
                sub = Exec(self.self_obj)
                env2 = {kw.arg: self.ev(kw.value, env) for kw in e.keywords}
                outs = sub.run_body(callee.body, env2, BoolVal(True))
                res = BoolVal(False)
                for pc, val in outs: res = If(pc, val, res)
                return res
            raise NotImplementedError(ast.dump(e))
        if isinstance(e, ast.Compare):
            left = self.ev(e.left, env); op = e.ops[0]; right = self.ev(e.comparators[0], env)
            if isinstance(op, (ast.Eq, ast.NotEq)):
                # PrimitiveType.__eq__ against a bare python type: python_type is other
                if right in (PY_STR, PY_INT): r = prim_of(left) == right
                else: r = left == right
                return Not(r) if isinstance(op, ast.NotEq) else r
            if isinstance(op, ast.In) and isinstance(right, tuple) and right[0] == "set":
                return Or(*[left == x for x in right[1]])
            raise NotImplementedError(ast.dump(e))
        if isinstance(e, ast.BoolOp):
            vals = [self.truthy(self.ev(v, env)) for v in e.values]
            return And(*vals) if isinstance(e.op, ast.And) else Or(*vals)
        if isinstance(e, ast.UnaryOp) and isinstance(e.op, ast.Not):
            return Not(self.truthy(self.ev(e.operand, env)))
        raise NotImplementedError(ast.dump(e))

    def truthy(self, v):
        if is_bool(v): return v
        if isinstance(v, ExprRef) and v.sort() == Obj: return v != NONE     # wrapper objects define no __bool__/__len__
        raise NotImplementedError(v)

    # ---- statements: returns list of (pc, env) that fall through; records outcomes on return
    def run_body(self, body, env, pc):
        self.outcomes = []
        self._stmts(body, env, pc)
        return self.outcomes

    def _stmts(self, body, env, pc):
        states = [(pc, env)]
        for st in body:
            nxt = []
            for pc_, env_ in states: nxt += self._stmt(st, env_, pc_)
            states = nxt
        return states

    def _stmt(self, st, env, pc):
        if isinstance(st, ast.Expr) and isinstance(st.value, ast.Constant): return [(pc, env)]      # docstring
        if isinstance(st, ast.Assign):
            env = dict(env); tgt = st.targets[0]; val = self.ev(st.value, env)
            if isinstance(tgt, ast.Name): env[tgt.id] = val
            else: raise NotImplementedError
            return [(pc, env)]
        if isinstance(st, ast.Return):
            self.outcomes.append((pc, self.ev(st.value, env) if st.value else NONE)); return []
        if isinstance(st, ast.If):
            c = self.truthy(self.ev(st.test, env))
            return self._stmts(st.body, env, And(pc, c)) + self._stmts(st.orelse, env, And(pc, Not(c)))
        if isinstance(st, ast.For):
            it = self.ev(st.iter, env)
            if isinstance(it, tuple) and not (len(it) == 2 and it[0] == "values"):        # literal tuple: unroll
                states = [(pc, env)]
                for item in it:
                    nxt = []
                    for pc_, env_ in states:
                        env2 = dict(env_)
                        if isinstance(st.target, ast.Tuple):
                            for t, v in zip(st.target.elts, item): env2[t.id] = v
                        else: env2[st.target.id] = item
                        nxt += self._stmts(st.body, env2, pc_)
                    states = nxt
                return states
            # symbolic sequence: invariant over `seen` = first k elements
            msg = it[1]; k = FreshInt("k"); n = nfields(msg)
            inv = lambda kk: ForAll([j_], Implies(And(0 <= j_, j_ < kk), Not(repeated(field_at(msg, j_)))))   # sidecar invariant for#2
            self.vcs.append(("inv-init", Implies(pc, inv(IntVal(0)))))
            head = And(pc, 0 <= k, k <= n, inv(k))
            env2 = dict(env); env2[st.target.id] = field_at(msg, k)
            falls = self._stmts(st.body, env2, And(head, k < n))
            for pc_f, _ in falls: self.vcs.append(("inv-step", Implies(pc_f, inv(k + 1))))
            return [(And(head, k == n), env)]
        raise NotImplementedError(ast.dump(st))


# ---------------------------------------------------------------- contract (from the C07 sentence)
def spec(method, strict=True, by_name_only=False):
    inp, out = m_input(method), m_output(method)
    def is_str(f): return prim_of(ftype(f)) == PY_STR
    def is_int(f): return prim_of(ftype(f)) == PY_INT
    def is_wrapper(f):
        t = ftype(f)
        base = And(is_msg(t), Or(msg_name(t) == "UInt32Value", msg_name(t) == "Int32Value"))
        return base if by_name_only else And(base, msg_pkg(t) == "google.protobuf")
    pt, npt = fields_get(inp, StringVal("page_token")), fields_get(out, StringVal("next_page_token"))
    ps, mr = fields_get(inp, StringVal("page_size")), fields_get(inp, StringVal("max_results"))
    if strict:
        size_ok = Or(And(ps != NONE, is_int(ps)), And(mr != NONE, Or(is_int(mr), is_wrapper(mr))))
    else:   # what the code does: first present of (max_results, page_size), int or wrapper
        chosen = If(mr != NONE, mr, ps)
        size_ok = And(chosen != NONE, Or(is_int(chosen), is_wrapper(chosen)))
    k = Int("kk")
    some_rep = Exists([k], And(0 <= k, k < nfields(out), repeated(field_at(out, k))))
    paged = And(pt != NONE, is_str(pt), npt != NONE, is_str(npt), size_ok, some_rep)
    def first_rep(res):
        return Exists([k], And(0 <= k, k < nfields(out), repeated(field_at(out, k)), res == field_at(out, k),
                               ForAll([j_], Implies(And(0 <= j_, j_ < k), Not(repeated(field_at(out, j_)))))))
    return paged, first_rep


def check(name, formula, timeout=10000):
    s = Solver(); s.set(timeout=timeout); s.add(AXIOMS); s.add(Not(formula))
    t = time.time(); r = s.check(); dt = time.time() - t
    verdict = "discharged" if r == unsat else ("OPEN (model)" if r == sat else "OPEN (unknown)")
    print(f"  {name:34s} {verdict:16s} {dt:6.2f}s")
    return r, (s.model() if r == sat else None)


def main():
    method = Const("method", Obj)
    fn = find_method("Method", "paged_result_field")
    ex = Exec(method)
    outs = ex.run_body(fn.body, {}, BoolVal(True))
    print(f"extracted {fn.name} from /repo (lines {fn.lineno}-{fn.end_lineno}); {len(outs)} return paths, {len(ex.vcs)} loop VCs")
    for label, kw in (("literal reading of the sentence", dict(strict=True)),
                      ("code-shaped reading (first of max_results/page_size; wrappers by simple name)", dict(strict=False, by_name_only=True))):
        paged, first_rep = spec(method, **kw)
        print(label)
        for nm, vc in ex.vcs: check(nm, vc)
        for idx, (pc, val) in enumerate(outs):
            r, model = check(f"path{idx}: (result!=None) == paged", Implies(pc, (val != NONE) == paged))
            check(f"path{idx}: result is first repeated", Implies(And(pc, val != NONE), first_rep(val)))
            if model is not None:
                mr = fields_get(m_input(method), StringVal("max_results")); ps = fields_get(m_input(method), StringVal("page_size"))
                ev = lambda t: model.eval(t, model_completion=True)
                print("      model: max_results present:", ev(mr != NONE), " int:", ev(prim_of(ftype(mr)) == PY_INT),
                      "| page_size present:", ev(ps != NONE), " int:", ev(prim_of(ftype(ps)) == PY_INT),
                      " wrapper-by-name:", ev(And(is_msg(ftype(ps)), Or(msg_name(ftype(ps)) == "Int32Value", msg_name(ftype(ps)) == "UInt32Value"))),
                      " pkg:", ev(msg_pkg(ftype(ps))))


if __name__ == "__main__":
    main()
