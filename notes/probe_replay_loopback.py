import sys, os, tempfile, shutil, importlib; sys.path.insert(0,'/verif/notes')
from probe_gen import *
T=d.FieldDescriptorProto
f = d.FileDescriptorProto(name="goo/foo/v1/a.proto", package="goo.foo.v1", syntax="proto3", dependency=["google/api/client.proto","google/api/annotations.proto"])
R = f.message_type.add(name="ListReq"); R.field.append(F("parent",1,T.TYPE_STRING)); R.field.append(F("page_size",2,T.TYPE_INT32)); R.field.append(F("page_token",3,T.TYPE_STRING))
P = f.message_type.add(name="ListResp"); P.field.append(F("items",1,T.TYPE_STRING,label=3)); P.field.append(F("next_page_token",2,T.TYPE_STRING))
s = f.service.add(name="Svc"); s.options.Extensions[client_pb2.default_host] = "foo.googleapis.com"
m = s.method.add(name="ListThings", input_type=".goo.foo.v1.ListReq", output_type=".goo.foo.v1.ListResp")
m.options.Extensions[annotations_pb2.http].get = "/v1/{parent=projects/*}/things"
m.options.Extensions[client_pb2.method_signature].append("parent")
api_schema, res = generate([f], [f.name], "transport=grpc+rest")
root = tempfile.mkdtemp(prefix="genlab_")
try:
    for x in res.file:
        p = os.path.join(root, x.name); os.makedirs(os.path.dirname(p), exist_ok=True); open(p, "w").write(x.content)
    # gapic_version.py is referenced by the package
    sys.path.insert(0, root)
    from goo import foo_v1
    from google.auth.credentials import AnonymousCredentials
    import grpc
    calls = []
    pages = [(["a","b"], "t1"), ([], "t2"), (["c"], "")]
    class FakeMulti:
        def __init__(self, path, ser, deser): self.path, self.ser, self.deser = path, ser, deser
        def __call__(self, request, timeout=None, metadata=None, **kw):
            raw = self.ser(request); calls.append((self.path, raw, tuple(metadata or ())))
            items, tok = pages[len(calls)-1]
            return self.deser(foo_v1.ListResp.serialize(foo_v1.ListResp(items=items, next_page_token=tok)))
        def with_call(self, request, timeout=None, metadata=None, **kw):
            return self(request, timeout=timeout, metadata=metadata), None
    class FakeChannel(grpc.Channel):
        def unary_unary(self, path, request_serializer=None, response_deserializer=None, *a, **kw): return FakeMulti(path, request_serializer, response_deserializer)
        def unary_stream(self, *a, **k): raise NotImplementedError
        def stream_unary(self, *a, **k): raise NotImplementedError
        def stream_stream(self, *a, **k): raise NotImplementedError
        def subscribe(self, *a, **k): pass
        def unsubscribe(self, *a, **k): pass
        def close(self): pass
    from goo.foo_v1.services.svc.transports import SvcGrpcTransport
    tr = SvcGrpcTransport(channel=FakeChannel(), credentials=AnonymousCredentials())
    client = foo_v1.SvcClient(transport=tr)
    out = list(client.list_things(parent="projects/p", retry=None))
    print("items:", out)
    for path, raw, md in calls: print(path, foo_v1.ListReq.deserialize(raw).page_token, [m for m in md if m[0]=="x-goog-request-params"])
finally:
    shutil.rmtree(root)
