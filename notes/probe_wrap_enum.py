import itertools, collections, sys
from gapic.utils.lines import wrap
toks = ["a", "bb", "ccc", " ", "\t", "\n", ":", "- ", "1. "]
bad = collections.Counter(); examples = {}; n = 0; errs = collections.Counter()
for L in range(1, 7):
    for combo in itertools.product(toks, repeat=L):
        text = "".join(combo)
        for width in (4, 6, 9, 12):
            for offset in (None, 0, 3):
                if offset is not None and offset >= width: continue
                n += 1
                try: out = wrap(text, width, offset=offset)
                except Exception as e:
                    errs[type(e).__name__] += 1; examples.setdefault("EXC " + type(e).__name__, (text, width, offset)); continue
                if out.split() != text.split():
                    cls = "tab" if "\t" in text else ("colon" if ":" in text else ("list" if ("- " in text or "1. " in text) else "other"))
                    bad[cls] += 1; examples.setdefault(cls, (text, width, offset, out))
                else:
                    # width check
                    for i, line in enumerate(out.split("\n")):
                        lim = width - (offset or 0) if i == 0 else width
                        if len(line) > lim and len(line.split()) > 1:
                            bad["width"] += 1; examples.setdefault("width", (text, width, offset, out)); break
print(n, "cases", dict(bad), dict(errs))
for k, v in examples.items(): print(k, repr(v))
