import sys, os, tempfile, shutil; sys.path.insert(0,'/verif/notes')
from probe_gen import *
T=d.FieldDescriptorProto
f = d.FileDescriptorProto(name="goo/foo/v1/a.proto", package="goo.foo.v1", syntax="proto3", dependency=["google/api/client.proto","google/api/annotations.proto"])
R = f.message_type.add(name="Req"); R.field.append(F("type",1,T.TYPE_STRING)); R.field.append(F("other",2,T.TYPE_STRING))
P = f.message_type.add(name="Resp"); P.field.append(F("x",1,T.TYPE_STRING))
s = f.service.add(name="Svc"); s.options.Extensions[client_pb2.default_host] = "foo.googleapis.com"
m = s.method.add(name="Do", input_type=".goo.foo.v1.Req", output_type=".goo.foo.v1.Resp")
m.options.Extensions[annotations_pb2.http].get = "/v1/types/{type}"
api_schema, res = generate([f], [f.name], "transport=grpc+rest")
root = tempfile.mkdtemp(prefix="genlab_")
try:
    for x in res.file:
        p = os.path.join(root, x.name); os.makedirs(os.path.dirname(p), exist_ok=True); open(p, "w").write(x.content)
    sys.path.insert(0, root)
    from goo import foo_v1
    from google.auth.credentials import AnonymousCredentials
    seen = []
    class FakeResp:
        status_code = 200; content = b'{"x": "ok"}'; headers = {}
    class FakeSession:
        def get(self, url, **kw): seen.append(("GET", url, kw.get("params"))); return FakeResp()
        def close(self): pass
    from goo.foo_v1.services.svc.transports import SvcRestTransport
    tr = SvcRestTransport(credentials=AnonymousCredentials()); tr._session = FakeSession()
    from goo.foo_v1.services.svc.transports.base import DEFAULT_CLIENT_INFO; tr._prep_wrapped_messages(DEFAULT_CLIENT_INFO)
    client = foo_v1.SvcClient(transport=tr)
    fd = foo_v1.Req.pb(foo_v1.Req()).DESCRIPTOR.fields[0]; print('runtime field:', fd.name, fd.json_name, fd.number); print('to_json:', foo_v1.Req.to_json(foo_v1.Req(type_='abc')).replace('\n',' '))
    try:
        print(client.do(request={"type_": "abc", "other": "o"}), seen)
    except Exception as e:
        print("REST call failed:", type(e).__name__, str(e)[:300].replace("\n", " | "))
finally:
    shutil.rmtree(root)
