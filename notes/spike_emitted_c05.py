"""THROW-AWAY SPIKE (design-time probe, not the framework).

Question: take the request-coercion region of the real `client_method` macro, render it
symbolically (probe_symrender / probe_region_cut machinery), and decide the C05 contract
(mutual exclusion + per-field application) on every same-package, non-client-streaming
variant with a tiny symbolic executor over the *emitted* Python and a message algebra.
Also: does deleting the guard from the template text flip obligations to OPEN?

Run:  cd /repo && <overlay-python> /verif/notes/spike_emitted_c05.py
"""
import ast, sys, textwrap, time, re
sys.path.insert(0, "/verif/notes")
import jinja2
from jinja2 import nodes
import probe_symrender as SR
from probe_symrender import Sym, explore, wrap_filter
from gapic.generator.generator import Generator
from gapic.utils import Options
from z3 import *

T = "%namespace/%name_%version/%sub/services/%service/_client_macros.j2"


def variants(mutate=None):
    g = Generator(Options.build("")); env = g._env
    for n in ("snake_case", "camel_case", "rst", "wrap", "make_private"):
        env.filters[n] = wrap_filter(n, env.filters[n])
    src = env.loader.get_source(env, T)[0]
    if mutate: src = mutate(src)
    tree = env.parse(src, T, T)
    macro = [m for m in tree.find_all(nodes.Macro) if m.name == "client_method"][0]
    has = lambda n, s: any(s in d.data for d in n.find_all(nodes.TemplateData))
    start = next(i for i, n in enumerate(macro.body) if isinstance(n, nodes.If) and has(n, "Create or coerce"))
    imports = [n for n in tree.body if isinstance(n, (nodes.Import, nodes.FromImport))]
    region = nodes.Macro("region", macro.args, macro.defaults, macro.body[start:start + 1], lineno=macro.lineno)
    new_tree = nodes.Template(imports + [region], lineno=1); new_tree.set_environment(env)
    tmpl = jinja2.Template.from_code(env, env.compile(new_tree, T + "#region", T), env.make_globals(None), None)
    mod = tmpl.module
    return explore(lambda: str(mod.region(Sym("method"), Sym("name"), Sym("snippet_index"), Sym("api"), Sym("service"))))


# ------------------------------------------------------------------ message algebra (assumed proto-plus contract)
Val = DeclareSort("Val"); Path = DeclareSort("Path")
NONE = Const("NONE", Val)
is_T = Function("is_T", Val, BoolSort())                 # isinstance(x, RequestType)
coerce = Function("coerce", Val, Val)                    # RequestType(x) for x a dict / None / message
setf = Function("set", Val, Path, Val, Val)              # message with field at path := value
x_, v_ = Consts("x v", Val); p_ = Const("p", Path)
truthy = Function("truthy", Val, BoolSort())               # bool(x): falsy for None, 0, '', empty containers
AX = [Not(truthy(NONE)), ForAll([x_], is_T(coerce(x_))), ForAll([x_], Implies(is_T(x_), coerce(x_) == x_)),
      ForAll([x_, p_, v_], Implies(is_T(x_), is_T(setf(x_, p_, v_)))), Not(is_T(NONE))]


class Raise(Exception): pass


def run(code, holes, nfields):
    """Symbolically execute one emitted variant. Returns list of (pc, outcome) with outcome ('raise', name) | ('fall', env)."""
    tree = ast.parse(textwrap.dedent(code))
    env0 = {"request": Const("request0", Val)}
    for tok, path in holes.items():
        m = re.search(r"items\(\)\[(\d+)\]\.v\.name$|values\(\)\[(\d+)\](?:\.name|\['name'\])$", path)   # jinja's join(attribute=) goes through getitem
        if m: env0[tok] = Const("arg%s" % (m.group(1) or m.group(2)), Val)          # flattened parameter variables
    paths = {tok: Const("path_" + tok, Path) for tok in holes}                      # attribute labels
    outs = []

    def ev(e, env):
        if isinstance(e, ast.Name):
            if e.id in env: return env[e.id]
            return ("type", e.id)
        if isinstance(e, ast.Constant) and e.value is None: return NONE
        if isinstance(e, ast.Constant): return ("const", e.value)
        if isinstance(e, ast.List): return ("list", [ev(x, env) for x in e.elts])
        if isinstance(e, ast.Compare):
            l, r = ev(e.left, env), ev(e.comparators[0], env); op = e.ops[0]
            if isinstance(op, ast.IsNot): return l != r
            if isinstance(op, ast.Is): return l == r
            if isinstance(op, ast.Gt): return l > (r[1] if isinstance(r, tuple) else r)
        if isinstance(e, ast.BoolOp):
            vs = [ev(v, env) for v in e.values]
            return And(*vs) if isinstance(e.op, ast.And) else Or(*vs)
        if isinstance(e, ast.UnaryOp) and isinstance(e.op, ast.Not): return Not(ev(e.operand, env))
        if isinstance(e, ast.Call):
            if isinstance(e.func, ast.Name) and e.func.id == "isinstance":
                return is_T(ev(e.args[0], env))                                      # only isinstance(request, <RequestType hole>) occurs here
            if isinstance(e.func, ast.Name) and e.func.id == "len":
                lc = e.args[0]; assert isinstance(lc, ast.ListComp)
                seq = ev(lc.generators[0].iter, env); assert seq[0] == "list"
                tot = IntVal(0)
                for item in seq[1]:
                    env2 = dict(env); env2[lc.generators[0].target.id] = item
                    cond = And(*[ev(c, env2) for c in lc.generators[0].ifs])
                    tot = tot + If(cond, 1, 0)
                return tot
            if isinstance(e.func, ast.Name) and e.func.id in holes:                  # RequestType(request)
                return coerce(ev(e.args[0], env))
            if isinstance(e.func, ast.Name) and e.func.id == "ValueError": return ("exc", "ValueError")
        raise NotImplementedError(ast.dump(e))

    def stmts(body, env, pc):
        states = [(pc, env)]
        for st in body:
            nxt = []
            for pc_, env_ in states:
                if isinstance(st, ast.Assign):
                    tgt = st.targets[0]; env2 = dict(env_)
                    if isinstance(tgt, ast.Name): env2[tgt.id] = ev(st.value, env_)
                    elif isinstance(tgt, ast.Attribute) and isinstance(tgt.value, ast.Name) and tgt.value.id == "request":
                        env2["request"] = setf(env_["request"], paths[tgt.attr], ev(st.value, env_))
                    else: raise NotImplementedError(ast.dump(st))
                    nxt.append((pc_, env2))
                elif isinstance(st, ast.If):
                    c = ev(st.test, env_)
                    if isinstance(c, ExprRef) and c.sort() == Val: c = truthy(c)
                    nxt += stmts(st.body, env_, And(pc_, c)) + stmts(st.orelse, env_, And(pc_, Not(c)))
                elif isinstance(st, ast.Raise):
                    outs.append((pc_, ("raise", ev(st.exc.func if isinstance(st.exc, ast.Call) else st.exc, env_))))
                else: raise NotImplementedError(ast.dump(st))
            states = nxt
        return states

    for pc, env in stmts(tree.body, env0, BoolVal(True)): outs.append((pc, ("fall", env)))
    return outs, env0, paths


def obligations(outs, env0, paths, holes):
    """C05 contract, written from the property sentence."""
    args = sorted((k, v) for k, v in env0.items() if k != "request")
    keyof = {}
    for tok, path in holes.items():
        m = re.search(r"items\(\)\[(\d+)\]\.k$", path)
        if m: keyof[int(m.group(1))] = paths[tok]
    arg_idx = {}
    for tok, path in holes.items():
        m = re.search(r"items\(\)\[(\d+)\]\.v\.name$|values\(\)\[(\d+)\](?:\.name|\['name'\])$", path)   # jinja's join(attribute=) goes through getitem
        if m: arg_idx[tok] = int(m.group(1) or m.group(2))
    req0 = env0["request"]
    any_given = Or(*[v != NONE for _, v in args]) if args else BoolVal(False)
    must_raise = And(req0 != NONE, any_given)
    expected = coerce(req0)
    by_idx = {arg_idx[tok]: v for tok, v in args}           # several holes denote the same parameter (values()[i].name == items()[i].v.name)
    for i in sorted(by_idx):
        expected = If(by_idx[i] != NONE, setf(expected, keyof[i], by_idx[i]), expected)
    obs = []
    for n, (pc, out) in enumerate(outs):
        if out[0] == "raise": obs.append((f"path{n}: raises ValueError only when demanded", Implies(pc, must_raise)))
        else:
            obs.append((f"path{n}: no silent pass when both given", Implies(pc, Not(must_raise))))
            obs.append((f"path{n}: request sent == spec", Implies(pc, out[1]["request"] == expected)))
    return obs


def decide(label, mutate=None):
    res = variants(mutate)
    total = opened = 0; t0 = time.time(); used = 0
    for log, out, holes in res:
        d = {k: v for k, v, _ in log}
        if d.get(("bool", "method.client_streaming")) or not d.get(("eq", "method.input.ident.package", "method.ident.package")): continue
        n = d.get(("len", "method.flattened_fields.items()"), 0)
        if bool(d.get(("bool", "method.flattened_fields"))) != (n > 0) or d.get(("len", "method.flattened_fields.values()"), n) != n: continue   # schema invariants
        if any(d.get(("bool", f"method.flattened_fields.items()[{i}].v.repeated")) for i in range(n)): continue      # spike: scalar fields only
        used += 1
        outs, env0, paths = run(out, holes, n)
        for name, f in obligations(outs, env0, paths, holes):
            s = Solver(); s.set(timeout=5000); s.add(AX); s.add(Not(f)); r = s.check(); total += 1
            if r != unsat:
                opened += 1
                if opened <= 3: print(f"   OPEN [{n} fields] {name}: {r}" + (f"  model: request0 is None={s.model().eval(env0['request'] == NONE)}" if r == sat else ""))
    print(f"{label}: {used} variants, {total} obligations, {total - opened} discharged, {opened} open, {time.time() - t0:.2f}s")


if __name__ == "__main__":
    decide("unchanged template")
    decide("guard deleted from template", lambda src: src.replace(
        "        if request is not None and has_flattened_params:\n            raise ValueError('If the `request` argument is set, then none of '\n                             'the individual field arguments should be set.')\n", ""))
    decide("`is not None` -> truthiness in the application", lambda src: src.replace("            if {{ field.name }} is not None:\n", "            if {{ field.name }}:\n"))
