#!/bin/bash
# tools/seedmatrix.sh [JOBS]  -- every seeded change against the check of its own property, each on its own scratch copy of /repo
# (outside /repo and /verif, removed afterwards); writes seeded/RESULTS.md with the VIOLATION lines each check printed.
cd /verif
J=${1:-4}
one() {
  s=$1; p=${s%%_*}
  D=$(mktemp -d /tmp/srepo_XXXX)
  rsync -a --exclude .git /repo/ $D/
  ( cd $D && patch -p1 -s < /verif/seeded/$s/patch.diff ) || { echo "$s PATCH-FAILED"; rm -rf $D; return; }
  out=$(VERIF_EVIDENCE_DIR=/tmp/ev_seed_$s VERIF_REPO=$D /verif/check $p 2>&1)
  rc=$?
  v=$(echo "$out" | grep -c '^VIOLATION')
  groups=$(echo "$out" | grep '^VIOLATION' | sed 's/.*replay=\/verif\/replays\/[^/]*\///; s/\.json.*//' | tr '\n' ' ')
  echo "$s exit=$rc violations=$v :: $groups"
  rm -rf $D /tmp/ev_seed_$s
}
export -f one
ls seeded | grep -E "${PAT:-^C[0-9]+_[A-L]$}" | xargs -P $J -I{} bash -c 'one {}' | sort > ${OUT:=/tmp/seedmatrix.out.$$}
[ -n "$PAT" ] && { cat $OUT; exit 0; }
{ echo "# Seeded changes vs. the check of their property (regenerate with tools/seedmatrix.sh)"; echo; echo '```'; cat $OUT; echo '```'; } > seeded/RESULTS.md
cat $OUT
