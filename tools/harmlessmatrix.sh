#!/bin/bash
# tools/harmlessmatrix.sh [JOBS]  -- every behaviour-preserving refactoring in harmless/ against the check of its property (scratch copies of /repo);
# exit 0 = held, 2 = undecided (the check could not follow the new shape), 1 = false alarm (must be repaired in /verif).  Writes harmless/RESULTS.md.
cd /verif
J=${1:-4}
OUT=/tmp/harmlessmatrix.out.$$
ls harmless/*.diff | xargs -P $J -I{} bash -c 'f={}; p=$(basename $f | cut -d_ -f1); /verif/tools/harmlessrun.sh /verif/$f $p 2>&1 | grep "exit=\|PATCH-FAILED" | cut -c1-260' | sort > $OUT
{ echo "# Behaviour-preserving refactorings vs. the check of their property (regenerate with tools/harmlessmatrix.sh)"; echo; echo '```'; cat $OUT; echo '```'; } > harmless/RESULTS.md
cat $OUT
