#!/bin/bash
# Run every registered check on the clean tree (parallel), then validate MANIFEST and evidence files against the schemas.
cd /verif
[ -z "$(git -C /repo status --short)" ] || { echo "/repo is not clean"; exit 9; }
ids=$(python3 -c "import json; print(' '.join(c['property_id'] for c in json.load(open('MANIFEST.json'))['checks']))")
echo $ids | tr ' ' '\n' | xargs -P ${JOBS:-4} -I{} sh -c './check {} --tier ${TIER:-quick} > /tmp/runall_{}.log 2>&1; echo "{} exit=$? $(tail -1 /tmp/runall_{}.log)"'
.venv/bin/python - <<'PY'
import json, jsonschema
m = json.load(open('MANIFEST.json'))
jsonschema.validate(m, json.load(open('/root/.vp/MANIFEST.schema.json')))
es = json.load(open('/root/.vp/EVIDENCE.schema.json'))
for c in m['checks']:
    e = json.load(open(c['evidence_file']))
    jsonschema.validate(e, es)
    lvl = c['level_claimed']['category']
    ok = e['level'] == lvl and (lvl != 'proof' or e['coverage']['obligations'] == e['coverage']['discharged'])
    print(c['property_id'], 'evidence level', e['level'], 'claimed', lvl, 'OK' if ok else 'MISMATCH', e['coverage']['obligations'], e['coverage']['discharged'])
PY
