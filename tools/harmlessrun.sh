#!/bin/bash
# tools/harmlessrun.sh <patch file> <property> [more properties]  -- apply a behaviour-preserving refactoring to a scratch copy of /repo and run
# the checks: anything but exit 0 is a false alarm (exit 1) or brittleness (exit 2 / 3) of the check, to be repaired in /verif.
pf=$1; shift
D=$(mktemp -d /tmp/hrepo_XXXX)
rsync -a --exclude .git /repo/ $D/
( cd $D && patch -p1 -s < $pf ) || { echo "$(basename $pf) PATCH-FAILED"; rm -rf $D; exit 9; }
for p in "$@"; do
  out=$(VERIF_EVIDENCE_DIR=/tmp/ev_h_$$ VERIF_REPO=$D /verif/check $p 2>&1)
  rc=$?
  echo "$(basename $pf) $p exit=$rc :: $(echo "$out" | grep '^VIOLATION\|^UNDECIDED\|^CRASH' | cut -c1-160 | tr '\n' '|')"
done
rm -rf $D /tmp/ev_h_$$
