#!/bin/bash
# tools/mut.sh <property> <python-expr mutating source text: file|old|new> ...   -- runs the check on a scratch copy of /repo
P=$1; shift
D=$(mktemp -d /tmp/mrepo_XXXX)
rsync -a --exclude .git /repo/ $D/
for spec in "$@"; do
  python3 - "$D" "$spec" <<'PY'
import sys
d, spec = sys.argv[1], sys.argv[2]
f, old, new = spec.split("|", 2)
p = d + "/" + f
s = open(p).read()
assert old in s, "pattern not found: " + old
open(p, "w").write(s.replace(old, new, 1))
PY
done
VERIF_EVIDENCE_DIR=/tmp/ev_mut VERIF_REPO=$D /verif/check $P | tail -${TAIL:-6}
echo "exit=${PIPESTATUS[0]}"
rm -rf $D
