#!/bin/bash
# tools/seedtest.sh <seed dir name> <property> : apply a seeded change to /repo, run the check (evidence to /tmp), undo.
S=$1; P=$2
git -C /repo apply /verif/seeded/$S/patch.diff || { echo "patch does not apply"; exit 9; }
VERIF_EVIDENCE_DIR=/tmp/ev_mut /verif/check $P 2>&1 | grep -v "^KNOWN-FINDING" | tail -${TAIL:-4}
rc=${PIPESTATUS[0]}
git -C /repo checkout -- .
echo "exit=$rc"
