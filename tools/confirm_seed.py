#!/usr/bin/env python3
"""Confirm a seeded change: in a scratch worktree of /repo, (1) demo passes on the clean tree, (2) patch applies,
(3) unit-test outcomes identical to the clean tree, (4) demo fails with the patch.  Writes meta.json next to the patch.
usage: confirm_seed.py <seed dir containing patch.diff + demo.py> <property id> <needs text file or string>"""
import json, os, subprocess, sys, tempfile, shutil, re
seed, pid = sys.argv[1], sys.argv[2]
needs = sys.argv[3] if len(sys.argv) > 3 else ""
seed = os.path.abspath(seed)
wt = tempfile.mkdtemp(prefix="seedwt_", dir="/tmp")
os.rmdir(wt)
def sh(cmd, cwd=None, env=None):
    p = subprocess.run(cmd, shell=True, cwd=cwd, capture_output=True, text=True, env=env)
    return p.returncode, p.stdout + p.stderr
def tests(cwd):
    env = dict(os.environ, PYTHONPATH=cwd)
    rc, out = sh("/venv/bin/python -m pytest -q -p no:cacheprovider --timeout=900 --continue-on-collection-errors tests/unit -rA 2>&1 | grep -E '^(PASSED|FAILED|ERROR) ' | sort", cwd, env)
    return out
def demo(cwd):
    env = dict(os.environ, PYTHONPATH=cwd)
    os.makedirs(os.path.join(cwd, "_seed"), exist_ok=True)
    shutil.copy(os.path.join(seed, "demo.py"), os.path.join(cwd, "_seed", "seed_demo_script.py"))      # (a demo may generate a package called `demo`)
    rc, out = sh("/venv/bin/python _seed/seed_demo_script.py", cwd, env)
    return rc, out[-1500:]
try:
    rc, out = sh(f"git -C /repo worktree add -q --detach {wt} HEAD"); assert rc == 0, out
    base_cache = "/tmp/seed_baseline_tests.txt"
    if not os.path.exists(base_cache):
        open(base_cache, "w").write(tests(wt))
    base = open(base_cache).read()
    rc0, out0 = demo(wt)
    rc, out = sh(f"git apply {seed}/patch.diff", wt); assert rc == 0, "patch does not apply: " + out
    after = tests(wt)
    rc1, out1 = demo(wt)
    meta = {"property": pid, "needs_to_manifest": needs, "confirmed": {
        "patch_applies": True, "tests_identical_to_clean": after == base, "n_passed_clean": base.count("PASSED "), "n_passed_patched": after.count("PASSED "),
        "demo_clean_rc": rc0, "demo_patched_rc": rc1, "demo_patched_tail": out1[-600:]},
        "ran": ["git worktree add <scratch>; pytest tests/unit (clean vs patched, PASSED/FAILED/ERROR id sets compared)", "demo.py on clean and patched scratch worktree"]}
    ok = after == base and rc0 == 0 and rc1 != 0
    meta["kept"] = ok
    json.dump(meta, open(os.path.join(seed, "meta.json"), "w"), indent=1)
    print(seed, "OK" if ok else "REJECT", json.dumps(meta["confirmed"])[:300])
finally:
    sh(f"git -C /repo worktree remove --force {wt}")
    shutil.rmtree(wt, ignore_errors=True)
