#!/bin/bash
# tools/seedrun.sh <seed> [property]  -- run the (given or own) property's check on a scratch copy of /repo with the seeded change applied
s=$1; p=${2:-${s%%_*}}
D=$(mktemp -d /tmp/srepo_XXXX)
rsync -a --exclude .git /repo/ $D/
( cd $D && patch -p1 -s < /verif/seeded/$s/patch.diff ) || { echo "$s PATCH-FAILED"; rm -rf $D; exit 9; }
VERIF_EVIDENCE_DIR=/tmp/ev_seed_$s VERIF_REPO=$D /verif/check $p 2>&1 | grep -v "^WARNING\|^KNOWN-FINDING" | cut -c1-220 | tail -${TAIL:-5}
rm -rf $D /tmp/ev_seed_$s
