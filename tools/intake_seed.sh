#!/bin/bash
# tools/intake_seed.sh <property> <letter C|D> <worktree>  -- copy a round-2 seeded change into /verif/seeded/<id>_<letter>, confirm it in a
# scratch worktree (demo clean rc 0 / patched rc 1, unit-test id sets identical) and run the property's check on a scratch copy with it applied.
P=$1; L=$2; WT=$3
S=/verif/seeded/${P}_${L}
mkdir -p $S
cp $WT/_seed/patch$L.diff $S/patch.diff; cp $WT/_seed/demo$L.py $S/demo.py; cp $WT/_seed/note$L.md $S/note.md
python3 /verif/tools/confirm_seed.py $S $P "see note.md" 2>&1 | tail -1
