#!/usr/bin/env python3
"""Regenerates MANIFEST.json from props/registry.py (single source of truth)."""
import json, os, sys
sys.path.insert(0, os.path.dirname(os.path.abspath(__file__)))
from props.registry import CLAIMS, NOT_APPLICABLE

PYTEST = ("cd /repo && /venv/bin/python -m pytest -ra -q -p no:cacheprovider --timeout=900 "
          "--continue-on-collection-errors tests/unit")
m = {
    "version": 1,
    "setup_cmd": "./setup.sh",
    "hooks": {"guard": "GAPIC_GENERATOR_PYTHON_VERIF",
              "enable": "no source hooks: contracts are sidecars under /verif/props, extraction re-reads /repo's working tree on every run",
              "baseline_off_cmd": PYTEST, "source_commits": [], "add_only": True},
    "engines": [
        {"name": "pyvc", "path": "vf/pyvc.py", "serves_properties": sorted(CLAIMS),
         "kind_free_text": "home-grown verification-condition generator: symbolic execution of the real Python AST (stage-1 functions re-read from /repo; stage-2 code emitted by the real Jinja templates against symbolic proxies) against sidecar contracts, one VC per path, discharged by z3 5.1 with cvc5 as second back end"},
        {"name": "j2sym", "path": "vf/j2sym.py", "serves_properties": sorted(CLAIMS),
         "kind_free_text": "symbolic rendering of the real templates with the generator's own jinja2 environment against schema proxies; enumerates decision vectors, yields emitted-Python variants with named holes"},
    ],
    "checks": [], "not_applicable": [],
    "notes": "See DESIGN.md. Exit codes of ./check: 0 held, 1 VIOLATION, 2 undecided (unsupported construct / solver unknown without failing input), 3 checker crash.",
}
for pid in sorted(CLAIMS):
    c = CLAIMS[pid]
    m["checks"].append({
        "property_id": pid,
        "quick_cmd": f"./check {pid} --tier quick",
        "thorough_cmd": f"./check {pid} --tier thorough",
        "evidence_file": f"/verif/evidence/{pid}.json",
        "replay_cmd_template": f"./check {pid} --replay {{path}}",
        "engine": "pyvc",
        "level_claimed": {"category": c["category"], "text": c["text"], "design_ref": c["design_ref"]},
        "level_note": c["note"],
        "technique": c["technique"],
    })
for pid in sorted(NOT_APPLICABLE):
    m["not_applicable"].append({"property_id": pid, "reason": NOT_APPLICABLE[pid]})
json.dump(m, open(os.path.join(os.path.dirname(os.path.abspath(__file__)), "MANIFEST.json"), "w"), indent=1)
print("MANIFEST.json:", len(m["checks"]), "checks,", len(m["not_applicable"]), "not applicable")
